use inputlayer::{IQLEngine, Tuple, Value};
use inputlayer::code_generator::CodeGenerator;
fn main() {
    let progs = [
        "q(X, Z) <- e(X, Y), f(Y, Z), X < Z\n",
        "q(X) <- e(X, X), f(X, 2), !m(X)\n",
        "q(X, count<Y>) <- e(X, Y), f(Y, _)\n",
        "q(X, S) <- e(X, Y), S = X + Y * 2, S > 3\n",
        "q(X, Y) <- e(X, Y)\nq(X, Y) <- f(Y, X), m(X)\n",
        "q(X, W) <- e(X, Y), f(Y, Z), w(Z, W, 1), m(W)\n",
    ];
    for p in progs {
        let mut e = IQLEngine::new();
        e.parse(p).unwrap();
        let r = e.build_ir(false);
        println!("== {p}  build: {:?}", r.is_ok());
        for n in e.ir_nodes() {
            println!("{}", n.pretty_print(1));
        }
    }
    // timing
    let mut e = IQLEngine::new();
    e.parse(progs[0]).unwrap();
    e.build_ir(false).unwrap();
    let ir = e.ir_nodes()[0].clone();
    let i = |x: i64| Value::Int64(x);
    let t0 = std::time::Instant::now();
    let n = 2000;
    for _ in 0..n {
        let mut cg = CodeGenerator::new();
        cg.add_input("e".into(), vec![Tuple::new(vec![i(1), i(2)]), Tuple::new(vec![i(2), i(3)])]);
        cg.add_input("f".into(), vec![Tuple::new(vec![i(2), i(3)])]);
        let r = cg.execute(&ir).unwrap();
        assert_eq!(r.len(), 1);
    }
    println!("per exec {:?}", t0.elapsed() / n);
}
