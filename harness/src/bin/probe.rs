use inputlayer::{IQLEngine, Tuple, Value};
fn main() {
    let mut e = IQLEngine::new();
    let i = |x: i64| Value::Int64(x);
    e.add_tuples("e", vec![Tuple::new(vec![i(1), i(2)])]);
    let prog = std::env::args().nth(1).unwrap();
    let r = e.execute_tuples(&prog.replace("\\n", "\n"));
    println!("RESULT {:?}", r.map(|v| v.iter().map(|t| t.to_string()).collect::<Vec<_>>()));
}
