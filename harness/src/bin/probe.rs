use inputlayer::{DurabilityMode, StorageEngine, Tuple, Value};
use verif_harness::e2_store::mk_config;
fn ta() -> Tuple { Tuple::new(vec![Value::Int64(1), Value::Int64(2)]) }
fn show(s: &StorageEngine) -> String { format!("{:?}", s.execute_query_tuples_on("default", "q(X,Y) <- r(X,Y)").map(|v| v.len())) }
fn main() {
    let dir = std::path::PathBuf::from(std::env::args().nth(1).unwrap());
    let cfg = || mk_config(&dir, 2, DurabilityMode::Immediate, None);
    let wal = dir.join("persist/wal/current.wal");
    {
        let s = StorageEngine::new(cfg()).unwrap();
        println!("after recovery: {} ; wal {:?}", show(&s), std::fs::read_to_string(&wal));
        println!("delete: {:?}", s.delete_tuples_from("default", "r", vec![ta()]));
        println!("after delete: {} ; wal: {:?}", show(&s), std::fs::read_to_string(&wal));
        drop(s);
    }
    let s = StorageEngine::new(cfg()).unwrap();
    println!("after clean restart: {}", show(&s));
}
