use std::collections::HashMap;
fn order() -> Vec<u32> {
    let mut m: HashMap<u32, u32> = HashMap::new();
    for i in 0..20 { m.insert(i, i); }
    m.keys().copied().collect()
}
fn main() {
    let name = std::ffi::CString::new("verif_entropy_pin16").unwrap();
    let p = unsafe { libc::dlsym(libc::RTLD_DEFAULT, name.as_ptr()) };
    if !p.is_null() { let f: unsafe extern "C" fn(i32) = unsafe { std::mem::transmute(p) }; unsafe { f(1) }; }
    let a = std::thread::spawn(order).join().unwrap();
    let b = std::thread::spawn(order).join().unwrap();
    let c = std::thread::spawn(|| { let _x: HashMap<u8,u8> = HashMap::new(); order() }).join().unwrap();
    println!("same across fresh threads: {} ; differs after one more RandomState: {}", a == b, a != c);
    let name = std::ffi::CString::new("verif_entropy_pin16_served").unwrap();
    let p = unsafe { libc::dlsym(libc::RTLD_DEFAULT, name.as_ptr()) };
    if !p.is_null() { let f: unsafe extern "C" fn() -> i64 = unsafe { std::mem::transmute(p) }; println!("served {}", unsafe { f() }); }
}
