use verif_harness::e2_handler::*;
use inputlayer::{Tuple, Value};
fn main() {
    let env = Env::new("probe");
    env.create_kg("A");
    let i = |x: i64| Value::Int64(x);
    env.insert("A", "e", vec![Tuple::new(vec![i(1), i(2)]), Tuple::new(vec![i(2), i(3)])]);
    env.insert("A", "m", vec![Tuple::new(vec![i(3)])]);
    for r in ["+p(X, Y) <- e(X, Y)", "+p(X, Z) <- p(X, Y), e(Y, Z)", "+u(X, Y) <- p(X, Y), !m(Y), X < 2", "+w(X, 7) <- e(X, _)"] {
        println!("{:?}", messages(&env.query_program(Some("A"), r)));
    }
    for q in [".why ?u(X, Y)", ".why ?p(1, Y)", ".why ?w(X, Y)", ".why_not u(1, 3)", ".why_not p(3, 1)", ".why_not p(1, 3)"] {
        let r = env.query_program(Some("A"), q).unwrap();
        println!("== {q}: rows {:?}", r.rows.iter().map(|t| format!("{:?}", t.values)).collect::<Vec<_>>());
        for g in r.proof_trees.unwrap_or_default() {
            println!("{}", serde_json::to_string(&g).unwrap());
        }
    }
}
