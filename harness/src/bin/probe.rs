//! Debug aid (not a check): print IR before/after join planning and answers under jp on/off.
use inputlayer::{IQLEngine, JoinPlanner, OptimizationConfig, Tuple, Value};
fn main() {
    let a: Vec<String> = std::env::args().collect();
    let text = a[1].replace("\\n", "\n");
    let edb: serde_json::Value = serde_json::from_str(&a[2]).unwrap();
    let load = |e: &mut IQLEngine| {
        for (k, rows) in edb.as_object().unwrap() {
            let ts: Vec<Tuple> = rows.as_array().unwrap().iter().map(|r| Tuple::new(r.as_array().unwrap().iter().map(|x| Value::Int64(x.as_i64().unwrap())).collect())).collect();
            if !ts.is_empty() { e.add_tuples(k, ts); }
        }
    };
    let mut e = IQLEngine::new();
    load(&mut e);
    e.parse(&text).unwrap();
    e.build_ir(false).unwrap();
    for ir in e.ir_nodes() {
        println!("IR: {ir:#?}");
        println!("PLANNED: {:#?}", JoinPlanner::new().plan_joins(ir.clone()));
    }
    for m in 0..32u32 {
        let c = OptimizationConfig { enable_join_planning: m & 1 != 0, enable_sip_rewriting: m & 2 != 0, enable_subplan_sharing: m & 4 != 0, enable_boolean_specialization: m & 8 != 0, enable_magic_sets: m & 16 != 0 };
        let mut e = IQLEngine::with_config(c.clone());
        load(&mut e);
        println!("jp={} sip={} share={} bool={} magic={}: {:?}", c.enable_join_planning as u8, c.enable_sip_rewriting as u8, c.enable_subplan_sharing as u8, c.enable_boolean_specialization as u8, c.enable_magic_sets as u8, e.execute_tuples(&text).map(|v| v.iter().map(|t| t.to_string()).collect::<Vec<_>>()));
    }
}
