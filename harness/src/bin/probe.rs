use verif_harness::e2_handler::*;
fn main() {
    let mut e = inputlayer::IQLEngine::new();
    e.add_tuples("e", vec![inputlayer::Tuple::new(vec![inputlayer::Value::Int64(2), inputlayer::Value::Int64(3)])]);
    for p in ["h(X, Y) <- e(X, Z), Y = Z * 2.0", "h(X, Y) <- e(X, Z), Y = Z * 2", "g(X, 2.0) <- e(X, _)", "g(X, 2.5) <- e(X, _)", "h(X, Y) <- e(X, Z), Y = Z * 0.5"] {
        println!("{p} => {:?}", e.execute_tuples(p));
    }
    let env = Env::new("probe");
    env.create_kg("A");
    env.insert("A", "e", vec![inputlayer::Tuple::new(vec![inputlayer::Value::Int64(2), inputlayer::Value::Int64(3)])]);
    println!("{:?}", env.query_program(Some("A"), "h(X, Y) <- e(X, Z), Y = Z * 2.0\n?h(A,B)").map(|q| q.rows));
    println!("{:?}", env.query_program(Some("A"), "+p(X, Y) <- e(X, Z), Y = Z * 2.0").map(|q| q.rows));
    println!("{:?}", env.query_program(Some("A"), "?p(A,B)").map(|q| q.rows));
    println!("{:?}", env.query_program(Some("A"), "+p2(X, 2.0) <- e(X, _)").map(|q| q.rows));
    println!("{:?}", env.query_program(Some("A"), "?p2(A,B)").map(|q| q.rows));
}
