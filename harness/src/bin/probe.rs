use hnsw_rs::prelude::*;
use verif_harness::entropy::*;
fn main() {
    let menu = seed_menu(8, 0.2, 4, 12, 5);
    let pts: Vec<Vec<f32>> = vec![vec![1.0, 1.0], vec![1.0, 1.0], vec![1.0, 1.0], vec![1.0, 1.0], vec![2.0, -1.0]];
    for (name, seed) in [("benign", &menu.benign), ("sp4", &menu.special[4]), ("sp0", &menu.special[0]), ("sp2", &menu.special[2])] {
        assert!(plan(seed, None));
        let mut h: Hnsw<f32, DistL2> = Hnsw::new(8, pts.len(), 4, 50, DistL2);
        h.set_keeping_pruned(true);
        h.set_extend_candidates(true);
        h.modify_level_scale(0.2);
        for (i, p) in pts.iter().enumerate() {
            h.insert((p, i));
        }
        clear();
        let r = h.search(&[-1.0, -1.0], 5, 16);
        eprintln!("{name}: levels {:?} maxlevel {} search -> {:?}", levels(seed, 8, 0.2, 4, 5), h.get_max_level_observed(), r.iter().map(|n| (n.d_id, n.distance)).collect::<Vec<_>>());
        let pts2: Vec<Vec<f32>> = vec![vec![0.0, 0.0], vec![1.0, 0.0], vec![0.0, 1.0], vec![3.0, 3.0], vec![2.0, -1.0]];
        assert!(plan(seed, None));
        let mut h: Hnsw<f32, DistL2> = Hnsw::new(8, pts2.len(), 4, 50, DistL2);
        h.set_keeping_pruned(true);
        h.set_extend_candidates(true);
        h.modify_level_scale(0.2);
        for (i, p) in pts2.iter().enumerate() {
            h.insert((p, i));
        }
        clear();
        let r = h.search(&[-1.0, -1.0], 5, 16);
        eprintln!("{name} distinct points: search -> {:?}", r.iter().map(|n| (n.d_id, n.distance)).collect::<Vec<_>>());
    }
}
