use verif_harness::e2_handler::*;
use inputlayer::{Tuple, Value};
fn main() {
    let env = Env::new("probe");
    env.create_kg("A");
    let i = |x: i64| Value::Int64(x);
    let k: i64 = std::env::args().nth(2).and_then(|s| s.parse().ok()).unwrap_or(7);
    let mut rows = vec![];
    for j in 0..k { rows.push(Tuple::new(vec![i(1), i(2 + j)])); rows.push(Tuple::new(vec![i(2 + j), i(101 + j)])); }
    eprintln!("inserting {} rows", rows.len());
    env.insert("A", "e", rows);
    eprintln!("inserted");
    let which = std::env::args().nth(1).unwrap_or("0".into());
    let rules: Vec<&str> = match which.as_str() {
        "0" => vec!["+r(X, Y) <- e(X, Y)", "+r(X, Z) <- r(X, Y), e(Y, Z)"],
        "1" => vec!["+r(X, Y) <- e(X, Y)", "+r(X, Z) <- e(X, Y), r(Y, Z)"],
        _ => vec!["+h(X, Z) <- e(X, Y), e(Y, Z)"],
    };
    for r in rules { eprintln!("registering {r}"); println!("{:?}", messages(&env.query_program(Some("A"), r))); }
    let rel = if which == "2" { "h" } else { "r" };
    for q in [format!("?{rel}(1, 101)"), format!("?{rel}(1, Q1)"), format!(".why ?{rel}(1, 101)")] {
        let t0 = std::time::Instant::now();
        let r = env.query_program(Some("A"), &q);
        println!("== {q}: {:?} rows {:?} trees {} in {:?}", r.as_ref().err(), r.as_ref().map(|x| x.rows.len()).unwrap_or(0), r.as_ref().map(|x| x.proof_trees.as_ref().map(|t| t.len()).unwrap_or(0)).unwrap_or(0), t0.elapsed());
    }
}
