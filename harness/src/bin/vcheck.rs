use verif_harness::common::Args;
use verif_harness::*;

fn main() {
    let args = Args::parse();
    let code = match args.prop.as_str() {
        "C01" | "C02" | "C03" | "C06" | "C07" | "C08" => e1::run(&args),
        "C04" => e1_c04::c04(&args),
        "C05" => e1_c05::c05(&args),
        "C36" => e2_index::c36(&args),
        "C26" => e5_c26::c26(&args),
        "C24" | "C25" => e2_hnsw::run(&args),
        "C34" => e2_rules::c34(&args),
        "C09" => e2_rules::c09(&args),
        "C10" => e2_c10::c10(&args),
        "C35" => e2_c35::c35(&args),
        "C18" => e2_incr::c18(&args),
        "C19" => e2_incr::c19(&args),
        "C17" => e2_kg::c17(&args),
        "C16" => e2_kg::c16(&args),
        "C13" => e3::c13(&args),
        "C15" => e4_c15::c15(&args),
        "C20" => e4_se::c20(&args),
        "C21" | "C22" | "C23" => e1_prov::run(&args),
        "C31" => e5::c31(&args),
        "C28" => e5::c28(&args),
        "C11" => e2_store::c11(&args),
        "C27" => e2_handler::c27(&args),
        "C30" => e2_handler::c30(&args),
        "C32" => e2_handler::c32(&args),
        "C29" => e2_handler::c29(&args),
        "C33" => e2_handler::c33(&args),
        "C12" => e2_store::c12(&args),
        "C14" => e2_store::c14(&args),
        other => {
            eprintln!("no check for {other}");
            2
        }
    };
    std::process::exit(code);
}
