//! Shared machinery: arguments, evidence writer, violation/known-finding
//! matcher, deterministic parallel driver with honest time caps.

use serde_json::{json, Map, Value as J};
use std::collections::{BTreeMap, HashSet};
use std::path::PathBuf;
use std::sync::atomic::{AtomicBool, AtomicU64, AtomicUsize, Ordering};
use std::sync::Mutex;
use std::time::Instant;

#[derive(Clone, Copy, PartialEq, Eq, Debug)]
pub enum Tier {
    Quick,
    Thorough,
}

#[derive(Clone, Debug)]
pub struct Args {
    pub prop: String,
    pub tier: Tier,
    pub seed: u64,
    pub replay: Option<PathBuf>,
    pub extra: Vec<String>,
}

impl Args {
    pub fn parse() -> Args {
        let mut it = std::env::args().skip(1);
        let prop = it.next().unwrap_or_else(|| {
            eprintln!("usage: vcheck <Cxx> [--tier quick|thorough] [--replay file]");
            std::process::exit(2)
        });
        let mut tier = match std::env::var("VERIF_TIER").ok().as_deref() {
            Some("thorough") => Tier::Thorough,
            _ => Tier::Quick,
        };
        let mut replay = None;
        let mut extra = vec![];
        while let Some(a) = it.next() {
            match a.as_str() {
                "--tier" => {
                    tier = match it.next().as_deref() {
                        Some("thorough") => Tier::Thorough,
                        _ => Tier::Quick,
                    }
                }
                "--replay" => replay = it.next().map(PathBuf::from),
                _ => extra.push(a),
            }
        }
        let seed = std::env::var("VERIF_SEED")
            .ok()
            .and_then(|s| s.parse::<i64>().ok())
            .map(|v| v as u64)
            .unwrap_or(0);
        Args {
            prop,
            tier,
            seed,
            replay,
            extra,
        }
    }
}

pub fn verif_root() -> PathBuf {
    std::env::var("VERIF_ROOT")
        .map(PathBuf::from)
        .unwrap_or_else(|_| PathBuf::from("/verif"))
}

pub fn fnv(bytes: &[u8]) -> u64 {
    let mut h: u64 = 0xcbf29ce484222325;
    for b in bytes {
        h ^= *b as u64;
        h = h.wrapping_mul(0x100000001b3);
    }
    h
}

/// Per-thread statistics, merged at the end.
#[derive(Default)]
pub struct Local {
    pub evaluations: u64,
    pub nontrivial: HashSet<u64>,
    pub outcomes: HashSet<u64>,
    pub counters: BTreeMap<&'static str, u64>,
}

impl Local {
    pub fn eval(&mut self) {
        self.evaluations += 1;
    }
    pub fn nontrivial(&mut self, key: u64) {
        self.nontrivial.insert(key);
    }
    pub fn outcome(&mut self, key: u64) {
        self.outcomes.insert(key);
    }
    pub fn count(&mut self, k: &'static str, n: u64) {
        *self.counters.entry(k).or_insert(0) += n;
    }
}

pub struct Viol {
    pub count: u64,
    pub case: J,
    pub detail: String,
}

pub struct Run {
    pub prop: String,
    pub tier: Tier,
    pub seed: u64,
    pub start: Instant,
    pub level: &'static str,
    pub budget_s: f64,
    pub capped: AtomicBool,
    pub evaluations: AtomicU64,
    pub nontrivial: Mutex<HashSet<u64>>,
    pub outcomes: Mutex<HashSet<u64>>,
    pub counters: Mutex<BTreeMap<String, u64>>,
    pub viol: Mutex<BTreeMap<String, Viol>>,
    pub samples: Mutex<Vec<J>>,
    pub extra: Mutex<Map<String, J>>,
    pub assumptions: Mutex<Vec<String>>,
    pub rule: Mutex<String>,
    pub machinery_errors: Mutex<Vec<String>>,
}

impl Run {
    pub fn new(args: &Args, level: &'static str, quick_budget_s: f64, thorough_budget_s: f64) -> Run {
        let budget = match args.tier {
            Tier::Quick => quick_budget_s,
            Tier::Thorough => thorough_budget_s,
        };
        let budget = std::env::var("VERIF_BUDGET_S")
            .ok()
            .and_then(|s| s.parse().ok())
            .unwrap_or(budget);
        spawn_watchdog(args.prop.clone(), budget);
        Run {
            prop: args.prop.clone(),
            tier: args.tier,
            seed: args.seed,
            start: Instant::now(),
            level,
            budget_s: budget,
            capped: AtomicBool::new(false),
            evaluations: AtomicU64::new(0),
            nontrivial: Mutex::new(HashSet::new()),
            outcomes: Mutex::new(HashSet::new()),
            counters: Mutex::new(BTreeMap::new()),
            viol: Mutex::new(BTreeMap::new()),
            samples: Mutex::new(vec![]),
            extra: Mutex::new(Map::new()),
            assumptions: Mutex::new(vec![]),
            rule: Mutex::new(String::new()),
            machinery_errors: Mutex::new(vec![]),
        }
    }
    pub fn quick(&self) -> bool {
        self.tier == Tier::Quick
    }
    pub fn out_of_time(&self) -> bool {
        self.start.elapsed().as_secs_f64() > self.budget_s
    }
    pub fn set_rule(&self, s: &str) {
        *self.rule.lock().unwrap() = s.to_string();
    }
    pub fn assume(&self, s: &str) {
        self.assumptions.lock().unwrap().push(s.to_string());
    }
    pub fn put(&self, k: &str, v: J) {
        self.extra.lock().unwrap().insert(k.to_string(), v);
    }
    pub fn add(&self, k: &str, n: u64) {
        *self.counters.lock().unwrap().entry(k.to_string()).or_insert(0) += n;
    }
    pub fn sample(&self, v: J) {
        let mut s = self.samples.lock().unwrap();
        if s.len() < 6 {
            s.push(v);
        }
    }
    pub fn want_sample(&self) -> bool {
        self.samples.lock().unwrap().len() < 6
    }
    pub fn machinery_error(&self, s: String) {
        let mut m = self.machinery_errors.lock().unwrap();
        if m.len() < 20 {
            eprintln!("MACHINERY-ERROR: {s}");
            m.push(s);
        }
    }
    /// Record a violation of class `class` (the signature used for known-finding matching).
    pub fn violation(&self, class: &str, case: J, detail: String) {
        if std::env::var("VERIF_DUMP").is_ok() {
            eprintln!("DUMP class={class} case={}", case.get("program_text").map(|t| t.to_string()).unwrap_or_else(|| truncate(&case.to_string(), 300)));
        }
        let mut v = self.viol.lock().unwrap();
        let e = v.entry(class.to_string()).or_insert_with(|| Viol {
            count: 0,
            case: case.clone(),
            detail: detail.clone(),
        });
        e.count += 1;
        // keep the smallest case (by serialized length) as the representative
        if e.count > 1 {
            let a = case.to_string().len();
            let b = e.case.to_string().len();
            if a < b {
                e.case = case;
                e.detail = detail;
            }
        }
    }
    pub fn merge(&self, l: Local) {
        self.evaluations.fetch_add(l.evaluations, Ordering::Relaxed);
        self.nontrivial.lock().unwrap().extend(l.nontrivial);
        self.outcomes.lock().unwrap().extend(l.outcomes);
        let mut c = self.counters.lock().unwrap();
        for (k, n) in l.counters {
            *c.entry(k.to_string()).or_insert(0) += n;
        }
    }

    /// Run `f(index, &mut Local)` for every index in 0..n on `threads` OS threads.
    /// The seed only rotates the starting index. Returns the number of indices completed;
    /// sets `capped` when the time budget cut the walk.
    pub fn par_for<F>(&self, n: usize, threads: usize, f: F) -> usize
    where
        F: Fn(usize, &mut Local) + Sync,
    {
        if n == 0 {
            return 0;
        }
        let next = AtomicUsize::new(0);
        let done = AtomicUsize::new(0);
        let off = (self.seed as usize) % n;
        std::thread::scope(|s| {
            for _ in 0..threads.max(1) {
                s.spawn(|| {
                    let mut local = Local::default();
                    loop {
                        if self.out_of_time() {
                            self.capped.store(true, Ordering::Relaxed);
                            break;
                        }
                        let i = next.fetch_add(1, Ordering::Relaxed);
                        if i >= n {
                            break;
                        }
                        f((i + off) % n, &mut local);
                        done.fetch_add(1, Ordering::Relaxed);
                    }
                    self.merge(local);
                });
            }
        });
        let d = done.load(Ordering::Relaxed);
        if d < n {
            self.capped.store(true, Ordering::Relaxed);
        }
        d
    }

    /// Write evidence, print verdict lines, return exit code.
    pub fn finish(&self) -> i32 {
        let known = load_known(&self.prop);
        let viol = self.viol.lock().unwrap();
        let mut unknown = 0;
        let mut known_hits = vec![];
        let mut viol_json = vec![];
        let rdir = verif_root().join("replays").join(&self.prop);
        for (class, v) in viol.iter() {
            let is_known = known.iter().find(|k| k.class == *class);
            let fname = format!("{}.json", sanitize(class));
            if let Some(k) = is_known {
                println!(
                    "KNOWN-FINDING: property={} class={} {} (occurrences this run: {})",
                    self.prop, class, k.what, v.count
                );
                known_hits.push(class.clone());
            } else {
                let _ = std::fs::create_dir_all(&rdir);
                let path = rdir.join(&fname);
                let body = json!({"property": self.prop, "class": class, "case": v.case, "detail": v.detail});
                let _ = std::fs::write(&path, serde_json::to_string_pretty(&body).unwrap());
                println!("VIOLATION property={} replay={}", self.prop, path.display());
                println!("  class={} occurrences={} detail={}", class, v.count, truncate(&v.detail, 600));
                unknown += 1;
            }
            viol_json.push(json!({"class": class, "occurrences": v.count, "known": is_known.is_some(),
                "detail": truncate(&v.detail, 400), "case": v.case}));
        }
        let merr = self.machinery_errors.lock().unwrap();
        let evaluations = self.evaluations.load(Ordering::Relaxed);
        let nontrivial = self.nontrivial.lock().unwrap().len() as u64;
        let outcomes = self.outcomes.lock().unwrap().len() as u64;
        let capped = self.capped.load(Ordering::Relaxed);
        let mut cov = Map::new();
        cov.insert("evaluations".into(), json!(evaluations));
        cov.insert("distinct_nontrivial".into(), json!(nontrivial));
        cov.insert("distinct_outcomes".into(), json!(outcomes));
        cov.insert("rule".into(), json!(*self.rule.lock().unwrap()));
        cov.insert("samples".into(), J::Array(self.samples.lock().unwrap().clone()));
        cov.insert("exhaustive".into(), json!(!capped));
        cov.insert("time_cap_hit".into(), json!(capped));
        for (k, v) in self.counters.lock().unwrap().iter() {
            cov.insert(k.clone(), json!(v));
        }
        for (k, v) in self.extra.lock().unwrap().iter() {
            cov.insert(k.clone(), v.clone());
        }
        let discarded = crate::e4::DISCARDED.load(Ordering::Relaxed);
        if discarded > 0 {
            // schedules in which a participant blocked at a place without a scheduling point: not judged, not expanded
            cov.insert("schedules_discarded_uninstrumented_blocking".into(), json!(discarded));
            cov.insert("exhaustive".into(), json!(false));
        }
        cov.insert("violation_classes".into(), J::Array(viol_json));
        cov.insert("known_findings_hit".into(), json!(known_hits));
        cov.insert("machinery_errors".into(), json!(*merr));
        let ev = json!({
            "property_id": self.prop,
            "tier": if self.tier == Tier::Quick {"quick"} else {"thorough"},
            "seed": self.seed as i64,
            "level": self.level,
            "coverage": J::Object(cov),
            "assumptions": *self.assumptions.lock().unwrap(),
            "wall_s": self.start.elapsed().as_secs_f64(),
            "violations": unknown,
        });
        let edir = verif_root().join("evidence");
        let _ = std::fs::create_dir_all(&edir);
        let p = edir.join(format!("{}.json", self.prop));
        std::fs::write(&p, serde_json::to_string_pretty(&ev).unwrap()).expect("write evidence");
        eprintln!(
            "[{}] evaluations={} distinct_nontrivial={} outcomes={} capped={} wall={:.1}s violations(unknown classes)={} known={}",
            self.prop,
            evaluations,
            nontrivial,
            outcomes,
            capped,
            self.start.elapsed().as_secs_f64(),
            unknown,
            known_hits.len()
        );
        if !merr.is_empty() {
            return 2;
        }
        if unknown > 0 {
            1
        } else {
            0
        }
    }
}

pub fn sanitize(s: &str) -> String {
    s.chars()
        .map(|c| if c.is_ascii_alphanumeric() || c == '-' || c == '_' { c } else { '_' })
        .take(200)
        .collect()
}

pub fn truncate(s: &str, n: usize) -> String {
    if s.len() <= n {
        s.to_string()
    } else {
        let mut e = n;
        while !s.is_char_boundary(e) {
            e -= 1;
        }
        format!("{}…", &s[..e])
    }
}

pub struct Known {
    pub class: String,
    pub what: String,
}

/// known_findings.jsonl: one JSON object per line:
/// {"status":"known"|"fixed","property":"Cxx","class":"<signature>","what":"...","commit":"..."}
/// Only status=known entries suppress; fixed entries are documentation.
pub fn load_known(prop: &str) -> Vec<Known> {
    let p = verif_root().join("known_findings.jsonl");
    let Ok(s) = std::fs::read_to_string(p) else {
        return vec![];
    };
    let mut out = vec![];
    for line in s.lines() {
        let line = line.trim();
        if line.is_empty() || line.starts_with('#') {
            continue;
        }
        let Ok(v) = serde_json::from_str::<J>(line) else {
            eprintln!("warning: unparsable known_findings line: {line}");
            continue;
        };
        if v["status"] == "known" && v["property"] == prop {
            out.push(Known {
                class: v["class"].as_str().unwrap_or("").to_string(),
                what: v["what"].as_str().unwrap_or("").to_string(),
            });
        }
    }
    out
}

pub fn read_replay(path: &std::path::Path) -> J {
    let s = std::fs::read_to_string(path).unwrap_or_else(|e| {
        eprintln!("cannot read replay {}: {e}", path.display());
        std::process::exit(2)
    });
    serde_json::from_str(&s).unwrap_or_else(|e| {
        eprintln!("bad replay json: {e}");
        std::process::exit(2)
    })
}

/// Scratch directory on tmpfs, removed on drop.
pub struct Scratch(pub PathBuf);
static SCRATCH_N: AtomicU64 = AtomicU64::new(0);
impl Scratch {
    pub fn new(tag: &str) -> Scratch {
        let base = if std::path::Path::new("/dev/shm").is_dir() {
            PathBuf::from("/dev/shm")
        } else {
            std::env::temp_dir()
        };
        let n = SCRATCH_N.fetch_add(1, Ordering::Relaxed);
        let p = base.join(format!("verif-{}-{}-{}", std::process::id(), tag, n));
        let _ = std::fs::remove_dir_all(&p);
        std::fs::create_dir_all(&p).expect("scratch dir");
        Scratch(p)
    }
    pub fn path(&self) -> &std::path::Path {
        &self.0
    }
}
impl Drop for Scratch {
    fn drop(&mut self) {
        let _ = std::fs::remove_dir_all(&self.0);
    }
}

pub fn threads() -> usize {
    std::env::var("VERIF_THREADS")
        .ok()
        .and_then(|s| s.parse().ok())
        .unwrap_or_else(|| std::thread::available_parallelism().map(|n| n.get()).unwrap_or(8))
}

/// Silence the default panic message for panics we catch on purpose.
pub fn quiet_panics() {
    std::panic::set_hook(Box::new(|_| {}));
}

/// Resource watchdog: a check that exceeds its RSS cap or runs far beyond its wall budget is a
/// machinery failure (exit 2), never a verdict.
fn spawn_watchdog(prop: String, budget_s: f64) {
    let rss_cap_gb: f64 = std::env::var("VERIF_RSS_CAP_GB").ok().and_then(|s| s.parse().ok()).unwrap_or(20.0);
    let hard_wall = budget_s * 3.0 + 120.0;
    let start = Instant::now();
    std::thread::spawn(move || loop {
        std::thread::sleep(std::time::Duration::from_millis(250));
        if let Ok(s) = std::fs::read_to_string("/proc/self/statm") {
            if let Some(pages) = s.split_whitespace().nth(1).and_then(|x| x.parse::<f64>().ok()) {
                let gb = pages * 4096.0 / 1e9;
                if gb > rss_cap_gb {
                    eprintln!("MACHINERY-ERROR: [{prop}] RSS {gb:.1} GB exceeds cap {rss_cap_gb} GB - aborting (not a verdict)");
                    std::process::exit(2);
                }
            }
        }
        if start.elapsed().as_secs_f64() > hard_wall {
            eprintln!("MACHINERY-ERROR: [{prop}] wall time exceeded hard cap {hard_wall:.0}s - aborting (not a verdict)");
            std::process::exit(2);
        }
    });
}
