//! E1 PROG — exhaustive program × EDB × configuration exploration against R1.
//! Serves C01, C02, C03, C04, C06, C07, C08.

use crate::common::*;
use crate::gen::*;
use crate::r1::*;
use inputlayer::{IQLEngine, OptimizationConfig, Tuple, Value};
use serde_json::{json, Value as J};
use std::collections::{BTreeMap, BTreeSet};
use std::panic::{catch_unwind, AssertUnwindSafe};

pub type Cfg = [bool; 5];
pub const CFG_DEFAULT: Cfg = [true; 5];

pub fn cfg_of(c: Cfg) -> OptimizationConfig {
    OptimizationConfig {
        enable_join_planning: c[0],
        enable_sip_rewriting: c[1],
        enable_subplan_sharing: c[2],
        enable_boolean_specialization: c[3],
        enable_magic_sets: c[4],
    }
}
pub fn all_cfgs() -> Vec<Cfg> {
    (0..32u32).map(|m| [m & 1 != 0, m & 2 != 0, m & 4 != 0, m & 8 != 0, m & 16 != 0]).collect()
}
pub fn cfg_name(c: Cfg) -> String {
    let n = ["jp", "sip", "share", "bool", "magic"];
    let on: Vec<&str> = n.iter().zip(c).filter(|(_, b)| *b).map(|(s, _)| *s).collect();
    if on.is_empty() {
        "none".into()
    } else {
        on.join("+")
    }
}

pub fn load_edb(engine: &mut IQLEngine, edb: &Db) {
    for (rel, rows) in edb {
        if rows.is_empty() {
            continue; // production snapshots simply lack empty relations
        }
        let tuples: Vec<Tuple> = rows.iter().map(|r| Tuple::new(r.iter().map(|x| Value::Int64(*x)).collect())).collect();
        engine.add_tuples(rel, tuples);
    }
}

#[derive(Debug, Clone)]
pub enum EngineOut {
    Ok(Vec<Tuple>),
    Err(String),
    Panic(String),
}

pub fn run_engine(text: &str, edb: &Db, cfg: Cfg, workers: usize, max_rows: usize) -> EngineOut {
    let r = catch_unwind(AssertUnwindSafe(|| {
        let mut e = IQLEngine::with_config(cfg_of(cfg));
        if workers > 1 {
            e.set_num_workers(workers);
        }
        if max_rows > 0 {
            e.set_max_result_rows(max_rows);
        }
        load_edb(&mut e, edb);
        e.execute_tuples(text)
    }));
    match r {
        Ok(Ok(t)) => EngineOut::Ok(t),
        Ok(Err(e)) => EngineOut::Err(e),
        Err(p) => EngineOut::Panic(panic_msg(&p)),
    }
}

pub fn panic_msg(p: &Box<dyn std::any::Any + Send>) -> String {
    if let Some(s) = p.downcast_ref::<&str>() {
        s.to_string()
    } else if let Some(s) = p.downcast_ref::<String>() {
        s.clone()
    } else {
        "panic".into()
    }
}

/// Numeric key of a value: f64 bits (ints exact below 2^53); non-numeric → tagged string hash.
pub fn vkey(v: &Value) -> u64 {
    let f = match v {
        Value::Int32(i) => *i as f64,
        Value::Int64(i) => *i as f64,
        Value::Float64(f) => *f,
        other => return 0x7ff8_dead_0000_0000 ^ fnv(format!("{other:?}").as_bytes()),
    };
    if f == 0.0 {
        0f64.to_bits()
    } else {
        f.to_bits()
    }
}
pub fn okey(o: &Out) -> u64 {
    let f = match o {
        Out::I(i) => *i as f64,
        Out::Avg(s, n) => *s as f64 / *n as f64,
    };
    if f == 0.0 {
        0f64.to_bits()
    } else {
        f.to_bits()
    }
}
pub fn tuple_key(t: &Tuple) -> Vec<u64> {
    t.values().iter().map(vkey).collect()
}
pub fn rows_key(rows: &BTreeSet<OutRow>) -> BTreeSet<Vec<u64>> {
    rows.iter().map(|r| r.iter().map(okey).collect()).collect()
}
pub fn show_tuples(ts: &[Tuple]) -> String {
    let mut v: Vec<String> = ts.iter().map(|t| format!("{t}")).collect();
    v.sort();
    truncate(&v.join(" "), 300)
}
pub fn show_rows(rows: &BTreeSet<OutRow>) -> String {
    let v: Vec<String> = rows
        .iter()
        .map(|r| {
            format!(
                "({})",
                r.iter()
                    .map(|o| match o {
                        Out::I(i) => i.to_string(),
                        Out::Avg(s, n) => format!("{s}/{n}"),
                    })
                    .collect::<Vec<_>>()
                    .join(",")
            )
        })
        .collect();
    truncate(&v.join(" "), 300)
}

/// Structural feature of a program used as the root-cause class of a failure signature.
pub fn feature(p: &Program) -> &'static str {
    let comps = sccs(p);
    if comps.iter().any(|c| c.len() >= 2) {
        return "mutual_recursion";
    }
    let has_agg = p.clauses.iter().any(|c| c.head.iter().any(|h| matches!(h, HeadArg::A(..))));
    let self_rec = p.clauses.iter().any(|c| c.body.iter().any(|l| matches!(l, Lit::Pos(a) | Lit::Neg(a) if a.rel == c.rel)));
    if has_agg && self_rec {
        return "recursive_aggregate";
    }
    if has_agg {
        return "aggregate";
    }
    if self_rec {
        let has_neg = p.clauses.iter().any(|c| c.body.iter().any(|l| matches!(l, Lit::Neg(_))));
        return if has_neg { "recursion_with_negation" } else { "recursion" };
    }
    // union head with a join clause
    let mut per_head: BTreeMap<&str, Vec<&Clause>> = BTreeMap::new();
    for c in &p.clauses {
        per_head.entry(c.rel.as_str()).or_default().push(c);
    }
    let npos = |c: &Clause| c.body.iter().filter(|l| matches!(l, Lit::Pos(_))).count();
    if per_head.values().any(|cs| cs.len() >= 2 && cs.iter().any(|c| npos(c) >= 2)) {
        return "union_head_with_join_clause";
    }
    if per_head.values().any(|cs| cs.len() >= 2) {
        return "union_head";
    }
    if p.clauses.iter().any(|c| c.body.iter().any(|l| matches!(l, Lit::Neg(_)))) {
        return "negation";
    }
    if p.clauses.iter().any(|c| c.body.iter().any(|l| matches!(l, Lit::Assign(..)))) {
        return "arithmetic";
    }
    if p.clauses.iter().any(|c| c.body.iter().any(|l| matches!(l, Lit::Cmp(..)))) {
        return "comparison";
    }
    if p.clauses.len() >= 2 {
        return "idb_chain";
    }
    "conjunctive"
}

pub fn case_json(p: &Program, edb: &Db, cfg: Cfg, workers: usize, limit: usize) -> J {
    json!({"program_text": p.text(), "program": p, "edb": db_to_json(edb), "cfg": cfg, "cfg_name": cfg_name(cfg), "workers": workers, "limit": limit})
}

pub struct Case {
    pub prog: Program,
    pub edb: Db,
    pub cfg: Cfg,
    pub workers: usize,
    pub limit: usize,
}
pub fn case_from_json(j: &J) -> Case {
    let c = &j["case"];
    let prog: Program = serde_json::from_value(c["program"].clone()).expect("program");
    let cfgv: Vec<bool> = serde_json::from_value(c["cfg"].clone()).unwrap_or(vec![true; 5]);
    Case {
        prog,
        edb: db_from_json(&c["edb"]),
        cfg: [cfgv[0], cfgv[1], cfgv[2], cfgv[3], cfgv[4]],
        workers: c["workers"].as_u64().unwrap_or(1) as usize,
        limit: c["limit"].as_u64().unwrap_or(0) as usize,
    }
}

/// Compare an engine answer with R1's. Returns Some((mode, detail)) on mismatch.
pub fn compare(out: &EngineOut, expect: &BTreeSet<OutRow>, arity: usize) -> Option<(&'static str, String)> {
    match out {
        EngineOut::Panic(m) => Some(("panic", format!("engine panicked: {}", truncate(m, 200)))),
        EngineOut::Err(e) => Some(("error", format!("engine rejected/failed: {}", truncate(e, 200)))),
        EngineOut::Ok(ts) => {
            if let Some(t) = ts.iter().find(|t| t.arity() != arity) {
                return Some(("arity", format!("tuple {t} has arity {} but query head has arity {arity}; got {}", t.arity(), show_tuples(ts))));
            }
            let got: BTreeSet<Vec<u64>> = ts.iter().map(tuple_key).collect();
            let exp = rows_key(expect);
            if got == exp {
                None
            } else {
                let missing = exp.difference(&got).count();
                let extra = got.difference(&exp).count();
                let mode = match (missing > 0, extra > 0) {
                    (true, false) => "missing_tuples",
                    (false, true) => "extra_tuples",
                    _ => "wrong_tuples",
                };
                Some((mode, format!("expected {} got {}", show_rows(expect), show_tuples(ts))))
            }
        }
    }
}

pub fn duplicates(ts: &[Tuple]) -> bool {
    let mut s = BTreeSet::new();
    ts.iter().any(|t| !s.insert(format!("{t:?}")))
}

fn families_for(prop: &str, quick: bool) -> Vec<&'static str> {
    match prop {
        "C01" => vec!["F1", "F2", "F3", "F4", "F5", "F6", "F8", "F9", "F10"],
        "C02" => vec!["F1", "F2", "F3", "F4", "F5", "F6", "F8", "F9", "F10"],
        "C03" => vec!["F6", "F5", "F1", "F2", "F3", "F4", "F8", "F10"],
        "C06" => vec!["F6"],
        "C07" => vec!["F1", "F2", "F3", "F4", "F5", "F6", "F7", "F8", "F9", "F10"],
        "C08" => {
            if quick {
                vec!["F2", "F3", "F4", "F8", "F10"]
            } else {
                vec!["F1", "F2", "F3", "F4", "F8", "F10"]
            }
        }
        _ => vec!["F1"],
    }
}

fn edb_budget(prop: &str, quick: bool) -> usize {
    match (prop, quick) {
        ("C01", true) => 180,
        ("C01", false) => 700,
        ("C02", true) => 4,
        ("C02", false) => 60,
        ("C03", true) => 24,
        ("C03", false) => 300,
        ("C06", true) => 24,
        ("C06", false) => 140,
        ("C07", true) => 150,
        ("C07", false) => 600,
        ("C08", true) => 40,
        ("C08", false) => 200,
        _ => 50,
    }
}

/// EDBs for the multi-worker check: larger relations so that hash partitioning splits groups.
fn edbs_c03(p: &Program, quick: bool) -> Vec<Db> {
    let rels = p.edb_rels();
    let dom: Vec<i64> = vec![1, 2, 3, 4];
    let mut lists: Vec<(String, Vec<Rel>)> = vec![];
    for (name, ar) in &rels {
        let uni = universe(&dom, *ar);
        // nested chain of prefixes of a fixed pseudo-shuffled universe: sizes 0..=cap step
        let mut order: Vec<Row> = uni.clone();
        order.sort_by_key(|r| fnv(format!("{name}{r:?}").as_bytes()));
        let sizes: Vec<usize> = if quick { vec![0, 3, 6, order.len()] } else { vec![0, 1, 2, 4, 6, 9, order.len()] };
        let mut subs: Vec<Rel> = vec![];
        for s in sizes {
            let s = s.min(order.len());
            let r: Rel = order[..s].iter().cloned().collect();
            if !subs.contains(&r) {
                subs.push(r);
            }
        }
        lists.push((name.clone(), subs));
    }
    edb_product(&lists)
}

pub fn run(args: &Args) -> i32 {
    quiet_panics();
    let prop = args.prop.as_str();
    if let Some(path) = &args.replay {
        return replay(args, path);
    }
    let run = Run::new(args, "exploration", 50.0, 1500.0);
    let b = Bounds { quick: run.quick() };
    let mut fams = families_for(prop, run.quick());
    let fam_env = std::env::var("VERIF_FAMILIES").unwrap_or_default();
    if !fam_env.is_empty() {
        // debugging aid only: restrict to some families (evidence records the restriction via programs_per_family)
        let want: Vec<&str> = fam_env.split(',').collect();
        fams.retain(|f| want.contains(f));
    }
    let progs = all_families(&b, &fams);
    let budget = edb_budget(prop, run.quick());
    // walk the families interleaved (proportionally), not one after the other: if the time cap ends the walk, every
    // family has been covered to the same fraction instead of the last ones not at all
    let progs: Vec<GenProg> = {
        let mut by_fam: BTreeMap<&str, Vec<GenProg>> = BTreeMap::new();
        for g in progs {
            by_fam.entry(g.family).or_default().push(g);
        }
        let total: usize = by_fam.values().map(|v| v.len()).sum();
        let mut keyed: Vec<(u64, usize, GenProg)> = vec![];
        for (fi, (_, v)) in by_fam.into_iter().enumerate() {
            let n = v.len();
            for (k, g) in v.into_iter().enumerate() {
                // position of the k-th of n programs on a common 0..total scale
                keyed.push((((k as u64) * (total as u64) * 2 + total as u64) / (n as u64 * 2), fi, g));
            }
        }
        keyed.sort_by_key(|(pos, fi, _)| (*pos, *fi));
        keyed.into_iter().map(|(_, _, g)| g).collect()
    };
    run.put("programs", json!(progs.len()));
    let mut fam_counts: BTreeMap<&str, usize> = BTreeMap::new();
    for g in &progs {
        *fam_counts.entry(g.family).or_insert(0) += 1;
    }
    run.put("programs_per_family", json!(fam_counts));
    run.put("edb_budget_per_program", json!(budget));
    run.set_rule(match prop {
        "C01" => "every program of families F1-F6, F8 (repeated sub-plans), F9 (multi-selection atoms over a ternary relation) and F10 (bound recursive queries in the desugared `?p(1, Y)` form, the one the magic-sets rewrite acts on) (complete within the grammar bounds of harness/src/gen.rs) x every EDB with <=m tuples per relation over D={1,2,3} (all subsets); default optimizer config, 1 worker; engine answer compared as a set with reference evaluator R1. non-trivial = (program,EDB) pairs whose reference answer is non-empty, counted distinct by hash of (program,EDB)",
        "C02" => "every program of F1-F6, F8 (repeated sub-plans), F9 (multi-selection atoms over a ternary relation) and F10 (bound recursive queries in the form the magic-sets rewrite acts on) x every small EDB (quick: at most 10 per program, fixed stride) x all 32 optimizer switch combinations; all 32 answers must be equal and equal to R1. evaluation = one engine execution; non-trivial = distinct (program,EDB) with non-empty reference answer",
        "C03" => "programs of F1,F2,F3,F4,F5,F6,F8,F10 (conjunctive, union heads, negation, recursion, arithmetic, aggregates, repeated sub-plans, bound recursive queries) x EDBs of up to 16 tuples over D={1..4} x workers in {1,2,3,4,8}; answer(w) must equal answer(1) and R1; non-trivial = distinct (program,EDB) with non-empty answer",
        "C06" => "all aggregate programs of F6 x all small EDBs x all 32 optimizer configurations; engine vs R1 aggregate semantics (distinct body valuations); non-trivial = distinct (program,EDB) with non-empty answer",
        "C07" => "every accepted program of F1-F10 x EDBs; structural check of the answer (no duplicate tuple, arity = head arity, head constants verbatim); constants leg: int / float / string / bool head constants in five shapes where two constants could be mixed up (two union branches, two rules joined, two constants in one head, the same constant twice, a computed column differing in a constant) x 2 EDBs x all 32 configurations, exact expected rows; non-trivial = distinct (program,EDB) with non-empty engine answer",
        "C08" => "programs with >=1 intermediate rule (F2-F4; +F1 thorough) x EDBs x limits {1,2,3,5,|A|,|A|+1}; result must be a duplicate-free subset of the unlimited answer A of size min(N,|A|); non-trivial = distinct (program,EDB,N) with non-empty A",
        _ => "",
    });
    run.assume("values are Int64 only; arithmetic restricted to + - * on small operands (DESIGN appendix A)");
    run.assume("reference evaluator R1 (harness/src/r1.rs) is correct; it is cross-validated by the unanimous-engine rule (a disagreement of R1 with all 32 configurations is reported as machinery error in C02)");
    let cfgs = all_cfgs();
    let nthreads = threads();
    run.par_for(progs.len(), nthreads, |pi, l| {
        let g = &progs[pi];
        let p = &g.prog;
        let text = p.text();
        let edbs = if prop == "C03" { edbs_c03(p, run.quick()) } else { edbs_for(p, &b, budget) };
        // C02 quick multiplies every case by 32 configurations: at most 10 EDBs per program, taken at a fixed
        // stride from the complete list (a deterministic sub-family; the thorough tier runs the complete list)
        let edbs: Vec<Db> = if prop == "C02" && run.quick() && edbs.len() > 10 {
            let stride = edbs.len().div_ceil(10);
            edbs.into_iter().step_by(stride).collect()
        } else {
            edbs
        };
        let arity = p.query_arity();
        let feat = feature(p);
        // recursive min/max over a cyclic weighted graph need not terminate (max) - acyclic EDBs only
        let edbs: Vec<Db> = if g.family == "F7recagg" {
            edbs.into_iter().filter(|d| d.get("w").map_or(true, |w| w.iter().all(|r| r[0] < r[1]))).collect()
        } else {
            edbs
        };
        for edb in &edbs {
            let expect = match eval_query(p, edb) {
                Ok(r) => r,
                Err(EvalErr::Arith(_)) => continue,
                Err(_) if prop == "C07" => BTreeSet::new(), // C07 is structural; R1 does not define recursive aggregates
                Err(e) => {
                    run.machinery_error(format!("R1 cannot evaluate generated program {text:?}: {e:?}"));
                    return;
                }
            };
            let key = fnv(format!("{text}|{}", fmt_db(edb)).as_bytes());
            if run.want_sample() && !expect.is_empty() {
                run.sample(json!({"program": text, "edb": fmt_db(edb), "reference_answer": show_rows(&expect)}));
            }
            match prop {
                "C01" => {
                    l.eval();
                    let out = run_engine(&text, edb, CFG_DEFAULT, 1, 0);
                    if !expect.is_empty() {
                        l.nontrivial(key);
                    }
                    l.outcome(fnv(format!("{:?}", rows_key(&expect)).as_bytes()));
                    if let Some((mode, d)) = compare(&out, &expect, arity) {
                        run.violation(&format!("{feat}:{mode}"), case_json(p, edb, CFG_DEFAULT, 1, 0), d);
                    }
                }
                "C02" | "C06" => {
                    let mut outs: Vec<(Cfg, Option<(&'static str, String)>, Option<BTreeSet<Vec<u64>>>)> = vec![];
                    for c in &cfgs {
                        l.eval();
                        let out = run_engine(&text, edb, *c, 1, 0);
                        let set = if let EngineOut::Ok(ts) = &out { Some(ts.iter().map(tuple_key).collect()) } else { None };
                        outs.push((*c, compare(&out, &expect, arity), set));
                    }
                    if !expect.is_empty() {
                        l.nontrivial(key);
                    }
                    l.outcome(fnv(format!("{:?}", rows_key(&expect)).as_bytes()));
                    let bad: Vec<&(Cfg, Option<(&'static str, String)>, Option<BTreeSet<Vec<u64>>>)> = outs.iter().filter(|o| o.1.is_some()).collect();
                    if bad.is_empty() {
                        continue;
                    }
                    let all_same = outs.iter().all(|o| o.2 == outs[0].2);
                    if prop == "C02" && bad.len() == 32 && all_same {
                        // unanimous engine vs R1: for C02 (a differential property) this is not a C02
                        // violation; it is C01's business. Counted, not raised.
                        l.count("unanimous_disagreement_with_R1_left_to_C01", 1);
                        continue;
                    }
                    // which switches are implicated: those on in every bad config / off in every bad config
                    let mut impl_on = vec![];
                    let names = ["jp", "sip", "share", "bool", "magic"];
                    for k in 0..5 {
                        if bad.iter().all(|o| o.0[k]) && outs.iter().filter(|o| o.1.is_none()).all(|o| !o.0[k]) {
                            impl_on.push(names[k]);
                        }
                    }
                    let which = if bad.len() == 32 {
                        "all_configs".to_string()
                    } else if impl_on.is_empty() {
                        "mixed".to_string()
                    } else {
                        format!("when_{}", impl_on.join("+"))
                    };
                    let (c, m, _) = bad[0];
                    let (mode, d) = m.clone().unwrap();
                    run.violation(
                        &format!("{feat}:{which}:{mode}"),
                        case_json(p, edb, *c, 1, 0),
                        format!("{} of 32 configurations differ from reference; first bad config {}: {}", bad.len(), cfg_name(*c), d),
                    );
                }
                "C03" => {
                    let base = run_engine(&text, edb, CFG_DEFAULT, 1, 0);
                    l.eval();
                    if !expect.is_empty() {
                        l.nontrivial(key);
                    }
                    l.outcome(fnv(format!("{:?}", rows_key(&expect)).as_bytes()));
                    let base_set: Option<BTreeSet<Vec<u64>>> = if let EngineOut::Ok(ts) = &base { Some(ts.iter().map(tuple_key).collect()) } else { None };
                    for w in [2usize, 3, 4, 8] {
                        l.eval();
                        let out = run_engine(&text, edb, CFG_DEFAULT, w, 0);
                        let set: Option<BTreeSet<Vec<u64>>> = if let EngineOut::Ok(ts) = &out { Some(ts.iter().map(tuple_key).collect()) } else { None };
                        if set != base_set || matches!(out, EngineOut::Panic(_)) {
                            let d = match (&base, &out) {
                                (EngineOut::Ok(a), EngineOut::Ok(bb)) => format!("workers=1 gives {} but workers={w} gives {}", show_tuples(a), show_tuples(bb)),
                                (a, bb) => format!("workers=1: {a:?}; workers={w}: {bb:?}"),
                            };
                            run.violation(&format!("{feat}:workers_differ"), case_json(p, edb, CFG_DEFAULT, w, 0), d);
                            break;
                        }
                    }
                }
                "C07" => {
                    l.eval();
                    let out = run_engine(&text, edb, CFG_DEFAULT, 1, 0);
                    match &out {
                        EngineOut::Err(_) => {
                            l.count("rejected_by_engine_not_a_case", 1);
                        }
                        EngineOut::Panic(m) => run.violation(&format!("{feat}:panic"), case_json(p, edb, CFG_DEFAULT, 1, 0), format!("panic: {m}")),
                        EngineOut::Ok(ts) => {
                            if !ts.is_empty() {
                                l.nontrivial(key);
                            }
                            l.outcome(fnv(show_tuples(ts).as_bytes()));
                            if duplicates(ts) {
                                run.violation(&format!("{feat}:duplicate_tuple"), case_json(p, edb, CFG_DEFAULT, 1, 0), format!("answer contains a tuple twice: {}", show_tuples(ts)));
                            }
                            if let Some(t) = ts.iter().find(|t| t.arity() != arity) {
                                run.violation(&format!("{feat}:arity"), case_json(p, edb, CFG_DEFAULT, 1, 0), format!("tuple {t} arity {} != head arity {arity}", t.arity()));
                            } else {
                                // head constants verbatim
                                let qc = p.clauses.last().unwrap();
                                for (i, h) in qc.head.iter().enumerate() {
                                    if let HeadArg::T(Const(c)) = h {
                                        if let Some(t) = ts.iter().find(|t| vkey(&t.values()[i]) != okey(&Out::I(*c))) {
                                            run.violation(&format!("{feat}:head_constant"), case_json(p, edb, CFG_DEFAULT, 1, 0), format!("column {i} must be constant {c}, got {t}"));
                                        }
                                    }
                                }
                            }
                        }
                    }
                }
                "C08" => {
                    let full = run_engine(&text, edb, CFG_DEFAULT, 1, 0);
                    l.eval();
                    let EngineOut::Ok(a) = &full else { continue };
                    let aset: BTreeSet<Vec<u64>> = a.iter().map(tuple_key).collect();
                    if aset != rows_key(&expect) {
                        l.count("unlimited_answer_differs_from_R1_left_to_C01", 1);
                        continue;
                    }
                    let n_a = aset.len();
                    let mut limits: BTreeSet<usize> = [1usize, 2, 3, 5, n_a, n_a + 1].into_iter().collect();
                    limits.remove(&0);
                    for n in limits {
                        l.eval();
                        if n_a > 0 {
                            l.nontrivial(fnv(format!("{key}/{n}").as_bytes()));
                        }
                        let out = run_engine(&text, edb, CFG_DEFAULT, 1, n);
                        match &out {
                            EngineOut::Err(_) => l.count("limited_run_returned_error_not_successful", 1),
                            EngineOut::Panic(m) => run.violation(&format!("{feat}:panic"), case_json(p, edb, CFG_DEFAULT, 1, n), format!("panic: {m}")),
                            EngineOut::Ok(ts) => {
                                let got: BTreeSet<Vec<u64>> = ts.iter().map(tuple_key).collect();
                                l.outcome(fnv(format!("{got:?}").as_bytes()));
                                let mode = if !got.is_subset(&aset) {
                                    Some("tuples_outside_answer")
                                } else if duplicates(ts) {
                                    Some("duplicates")
                                } else if ts.len() != n.min(n_a) {
                                    Some("wrong_count")
                                } else {
                                    None
                                };
                                if let Some(m) = mode {
                                    run.violation(&format!("{feat}:{m}"), case_json(p, edb, CFG_DEFAULT, 1, n), format!("limit {n}: unlimited answer {} ({} rows) but limited run returned {}", show_tuples(a), n_a, show_tuples(ts)));
                                }
                            }
                        }
                    }
                }
                _ => unreachable!(),
            }
        }
    });
    if prop == "C07" {
        constants_leg(&run);
    }
    if prop == "C02" && run.quick() {
        run.put("exhaustive", json!(false));
        run.put("exhaustive_note", json!("quick tier: at most 10 EDBs per program, taken at a fixed stride from the complete list; the thorough tier runs the complete list"));
    }
    run.finish()
}

/// C07, constants leg: "head constants reproduced verbatim" for constants of every kind, in the shapes where a
/// constant could be mixed up with another one — two rules (or two union branches) that differ in nothing but a
/// head constant, a join of two such relations, two constants in one head, a computed column that differs in a
/// constant only — under all 32 optimizer configurations.
fn constants_leg(run: &Run) {
    // (kind, literal 1, literal 2, value 1, value 2)
    let kinds: Vec<(&str, &str, &str, Value, Value)> = vec![
        ("int", "7", "8", Value::Int64(7), Value::Int64(8)),
        ("float", "0.25", "0.75", Value::Float64(0.25), Value::Float64(0.75)),
        ("string", "\"a\"", "\"b\"", Value::string("a"), Value::string("b")),
        ("bool", "true", "false", Value::Bool(true), Value::Bool(false)),
    ];
    let edbs: Vec<Db> = vec![[("e".to_string(), [vec![1, 2]].into_iter().collect())].into_iter().collect(), [("e".to_string(), [vec![1, 2], vec![2, 1]].into_iter().collect())].into_iter().collect()];
    let mut cases = 0u64;
    for (kind, l1, l2, v1, v2) in &kinds {
        for edb in &edbs {
            let xs: Vec<i64> = edb["e"].iter().map(|r| r[0]).collect();
            // (shape, program, expected rows)
            let mut shapes: Vec<(&str, String, BTreeSet<Vec<Value>>)> = vec![];
            shapes.push(("two_union_branches", format!("t(X, {l1}) <- e(X, _)\nt(X, {l2}) <- e(X, _)\nq(X, C) <- t(X, C)"), xs.iter().flat_map(|x| vec![vec![Value::Int64(*x), v1.clone()], vec![Value::Int64(*x), v2.clone()]]).collect()));
            shapes.push(("two_rules_joined", format!("lo(X, {l1}) <- e(X, _)\nhi(X, {l2}) <- e(X, _)\nq(X, A, B) <- lo(X, A), hi(X, B)"), xs.iter().map(|x| vec![Value::Int64(*x), v1.clone(), v2.clone()]).collect()));
            shapes.push(("two_constants_in_one_head", format!("q(X, {l1}, {l2}) <- e(X, _)"), xs.iter().map(|x| vec![Value::Int64(*x), v1.clone(), v2.clone()]).collect()));
            shapes.push(("same_constant_twice", format!("lo(X, {l1}) <- e(X, _)\nhi(X, {l1}) <- e(X, _)\nq(X, A, B) <- lo(X, A), hi(X, B)"), xs.iter().map(|x| vec![Value::Int64(*x), v1.clone(), v1.clone()]).collect()));
            if *kind == "int" || *kind == "float" {
                let f = |v: &Value, y: i64| -> Value {
                    match v {
                        Value::Int64(c) => Value::Int64(y * c),
                        Value::Float64(c) => Value::Float64(y as f64 * c),
                        _ => unreachable!(),
                    }
                };
                shapes.push(("computed_column_differs_in_constant", format!("lo(X, V) <- e(X, Y), V = Y * {l1}\nhi(X, V) <- e(X, Y), V = Y * {l2}\nq(X, A, B) <- lo(X, A), hi(X, B)"), edb["e"].iter().map(|r| vec![Value::Int64(r[0]), f(v1, r[1]), f(v2, r[1])]).collect()));
            }
            for (shape, text, want) in shapes {
                for cfg in all_cfgs() {
                    cases += 1;
                    run.evaluations.fetch_add(1, std::sync::atomic::Ordering::Relaxed);
                    let got = run_engine(&text, edb, cfg, 1, 0);
                    let case = json!({"leg": "constants", "kind": kind, "shape": shape, "program_text": text, "edb": fmt_db(edb), "cfg_name": cfg_name(cfg)});
                    match got {
                        EngineOut::Ok(ts) => {
                            // numeric columns are compared by value (an integer may come back as Int32 or Int64)
                            let norm = |v: &Value| -> String {
                                match v {
                                    Value::Int32(i) => format!("int {i}"),
                                    Value::Int64(i) => format!("int {i}"),
                                    Value::Float64(f) => format!("float {f:?}"),
                                    other => format!("{other:?}"),
                                }
                            };
                            let g: BTreeSet<Vec<String>> = ts.iter().map(|t| t.values().iter().map(norm).collect()).collect();
                            let w: BTreeSet<Vec<String>> = want.iter().map(|r| r.iter().map(norm).collect()).collect();
                            if g.len() != ts.len() {
                                run.violation(&format!("constants:{kind}:{shape}:duplicate_tuple"), case, format!("program [{}] on {} ({}): answer has duplicates {:?}", text.replace('\n', " ; "), fmt_db(edb), cfg_name(cfg), ts.iter().map(|t| t.to_string()).collect::<Vec<_>>()));
                            } else if g != w {
                                run.violation(&format!("constants:{kind}:{shape}:constant_not_reproduced"), case, format!("program [{}] on {} ({}): expected {:?} got {:?}", text.replace('\n', " ; "), fmt_db(edb), cfg_name(cfg), w, g));
                            }
                        }
                        EngineOut::Err(e) => run.violation(&format!("constants:{kind}:{shape}:rejected"), case, format!("program [{}] ({}): {e}", text.replace('\n', " ; "), cfg_name(cfg))),
                        EngineOut::Panic(e) => run.violation(&format!("constants:{kind}:{shape}:panic"), case, format!("program [{}] ({}): {e}", text.replace('\n', " ; "), cfg_name(cfg))),
                    }
                }
            }
        }
    }
    run.put("constants_leg_executions", json!(cases));
}

fn replay(args: &Args, path: &std::path::Path) -> i32 {
    let j = read_replay(path);
    let c = case_from_json(&j);
    let text = c.prog.text();
    println!("program:\n{text}\nedb: {}\nconfig: {} workers={} limit={}", fmt_db(&c.edb), cfg_name(c.cfg), c.workers, c.limit);
    let expect = eval_query(&c.prog, &c.edb);
    println!("reference answer: {:?}", expect.as_ref().map(show_rows));
    let out = run_engine(&text, &c.edb, c.cfg, c.workers, c.limit);
    let out2 = run_engine(&text, &c.edb, c.cfg, c.workers, c.limit);
    match &out {
        EngineOut::Ok(ts) => println!("engine answer: {}", show_tuples(ts)),
        o => println!("engine: {o:?}"),
    }
    if format!("{out:?}").len() != format!("{out2:?}").len() {
        println!("note: two replays differ (nondeterministic)");
    }
    let bad = match args.prop.as_str() {
        "C03" => {
            let base = run_engine(&text, &c.edb, c.cfg, 1, 0);
            match (&base, &out) {
                (EngineOut::Ok(a), EngineOut::Ok(b)) => a.iter().map(tuple_key).collect::<BTreeSet<_>>() != b.iter().map(tuple_key).collect::<BTreeSet<_>>(),
                _ => true,
            }
        }
        "C08" => {
            let base = run_engine(&text, &c.edb, c.cfg, 1, 0);
            match (&base, &out) {
                (EngineOut::Ok(a), EngineOut::Ok(b)) => {
                    let aset: BTreeSet<_> = a.iter().map(tuple_key).collect();
                    let got: BTreeSet<_> = b.iter().map(tuple_key).collect();
                    !got.is_subset(&aset) || duplicates(b) || b.len() != c.limit.min(aset.len())
                }
                _ => true,
            }
        }
        "C07" => match &out {
            EngineOut::Ok(ts) => duplicates(ts) || ts.iter().any(|t| t.arity() != c.prog.query_arity()),
            EngineOut::Panic(_) => true,
            _ => false,
        },
        _ => match expect {
            Ok(e) => compare(&out, &e, c.prog.query_arity()).is_some(),
            Err(_) => false,
        },
    };
    if bad {
        println!("VIOLATION property={} replay={}", args.prop, path.display());
        1
    } else {
        println!("replay: property holds on this case");
        0
    }
}
