//! C04 — answers are independent of clause order, clause repetition and engine history;
//! executing a query never changes the stored base facts.  (E1 PROG)

use crate::common::*;
use crate::e1::*;
use crate::gen::*;
use crate::r1::*;
use inputlayer::{IQLEngine, Tuple, Value};
use serde_json::{json, Value as J};
use std::collections::{BTreeMap, BTreeSet};
use std::panic::{catch_unwind, AssertUnwindSafe};

fn permutations(n: usize) -> Vec<Vec<usize>> {
    fn rec(cur: &mut Vec<usize>, used: &mut Vec<bool>, n: usize, out: &mut Vec<Vec<usize>>) {
        if cur.len() == n {
            out.push(cur.clone());
            return;
        }
        for i in 0..n {
            if !used[i] {
                used[i] = true;
                cur.push(i);
                rec(cur, used, n, out);
                cur.pop();
                used[i] = false;
            }
        }
    }
    let mut out = vec![];
    rec(&mut vec![], &mut vec![false; n], n, &mut out);
    out
}

/// Variants of a program with the same clause *set*: every permutation of the non-query
/// clauses (the query clause stays last: that is the API contract) and every single-clause
/// duplication (duplicate placed directly after the original, and at the end of the rules).
pub fn variants(p: &Program, max_perm_clauses: usize) -> Vec<(String, Program)> {
    let n = p.clauses.len() - 1;
    let qc = p.clauses.last().unwrap().clone();
    let mut out = vec![];
    if n >= 2 && n <= max_perm_clauses {
        for perm in permutations(n) {
            if perm.iter().enumerate().all(|(i, j)| i == *j) {
                continue;
            }
            let mut cl: Vec<Clause> = perm.iter().map(|i| p.clauses[*i].clone()).collect();
            cl.push(qc.clone());
            out.push((format!("perm{perm:?}"), Program { clauses: cl }));
        }
    }
    for i in 0..n {
        let mut cl: Vec<Clause> = p.clauses[..n].to_vec();
        cl.insert(i + 1, p.clauses[i].clone());
        cl.push(qc.clone());
        out.push((format!("dup{i}_adjacent"), Program { clauses: cl }));
        if i + 1 != n {
            let mut cl: Vec<Clause> = p.clauses[..n].to_vec();
            cl.push(p.clauses[i].clone());
            cl.push(qc.clone());
            out.push((format!("dup{i}_at_end"), Program { clauses: cl }));
        }
    }
    // the query clause itself repeated (same clause set)
    let mut cl = p.clauses.clone();
    cl.push(qc.clone());
    out.push(("dup_query".into(), Program { clauses: cl }));
    out
}

fn input_snapshot(e: &IQLEngine) -> BTreeMap<String, BTreeSet<String>> {
    e.input_tuples().iter().filter(|(_, v)| !v.is_empty()).map(|(k, v)| (k.clone(), v.iter().map(|t| format!("{t:?}")).collect())).collect()
}
fn input_multiset(e: &IQLEngine) -> BTreeMap<String, Vec<String>> {
    e.input_tuples()
        .iter()
        .filter(|(_, v)| !v.is_empty())
        .map(|(k, v)| {
            let mut x: Vec<String> = v.iter().map(|t| format!("{t:?}")).collect();
            x.sort();
            (k.clone(), x)
        })
        .collect()
}

fn answer_set(o: &EngineOut) -> Option<BTreeSet<Vec<u64>>> {
    match o {
        EngineOut::Ok(ts) => Some(ts.iter().map(tuple_key).collect()),
        _ => None,
    }
}

fn show_out(o: &EngineOut) -> String {
    match o {
        EngineOut::Ok(ts) => show_tuples(ts),
        EngineOut::Err(e) => format!("Err({})", truncate(e, 120)),
        EngineOut::Panic(m) => format!("Panic({})", truncate(m, 120)),
    }
}

/// Engine run that also reports whether the stored base facts changed.
fn run_checked(e: &mut IQLEngine, text: &str) -> (EngineOut, bool) {
    let before = input_multiset(e);
    let r = catch_unwind(AssertUnwindSafe(|| e.execute_tuples(text)));
    let out = match r {
        Ok(Ok(t)) => EngineOut::Ok(t),
        Ok(Err(x)) => EngineOut::Err(x),
        Err(p) => EngineOut::Panic(panic_msg(&p)),
    };
    let after = input_multiset(e);
    (out, before != after)
}

fn fresh_engine(edb: &Db) -> IQLEngine {
    let mut e = IQLEngine::new();
    load_edb(&mut e, edb);
    e
}

/// Pool of programs for the engine-history leg: the complete constant-bound F4 sub-family at the
/// quick bound (their magic-set seeds are the state an engine could leak) plus the shortest
/// program of every other family and some that define the same IDB name differently.
fn history_pool(quick: bool) -> Vec<Program> {
    let b = Bounds { quick: true };
    let mut out: Vec<Program> = vec![];
    let f4 = f4(&b);
    for g in &f4 {
        if g.family != "F4" {
            continue;
        }
        let qc = g.prog.clauses.last().unwrap();
        let bound = qc.body.iter().any(|l| matches!(l, Lit::Pos(a) if a.args.iter().any(|t| matches!(t, Const(_)))));
        if bound && g.prog.clauses.len() == 3 {
            out.push(g.prog.clone());
        }
    }
    if quick {
        // every 3rd bound program (deterministic sub-family, stated in the rule)
        out = out.into_iter().enumerate().filter(|(i, _)| i % 3 == 0).map(|(_, p)| p).collect();
    }
    // the desugared `?p(k, Y)` form is the one the magic-sets rewrite acts on (it plants seed facts in the engine):
    // the same rules queried with different constants, one after the other
    let f10 = f10(&Bounds { quick: false });
    let linear = [clause("p", &[X, Z], vec![pos("p", &[X, Y]), pos("e", &[Y, Z])]), clause("p", &[X, Z], vec![pos("e", &[X, Y]), pos("p", &[Y, Z])])];
    let take: Vec<&GenProg> = f10.iter().filter(|g| g.prog.clauses[0] == clause("p", &[X, Y], vec![pos("e", &[X, Y])]) && linear.contains(&g.prog.clauses[1])).collect();
    for g in take {
        out.push(g.prog.clone());
    }
    for (fam, gens) in [("F1", f1(&b)), ("F2", f2(&b)), ("F3", f3(&b)), ("F5", f5(&b)), ("F6", f6(&b))] {
        let _ = fam;
        if let Some(g) = gens.iter().min_by_key(|g| g.prog.text().len()) {
            out.push(g.prog.clone());
        }
    }
    // same IDB names with different meaning, unbound closure, negation over a derived relation
    out.push(Program { clauses: vec![clause("p", &[X, Y], vec![pos("f", &[X, Y])]), clause("q", &[X, Y], vec![pos("p", &[X, Y])])] });
    out.push(Program { clauses: vec![clause("p", &[X, Y], vec![pos("e", &[Y, X])]), clause("q", &[X], vec![pos("p", &[X, Const(1)])])] });
    out.push(Program {
        clauses: vec![
            clause("p", &[X, Y], vec![pos("e", &[X, Y])]),
            clause("p", &[X, Z], vec![pos("p", &[X, Y]), pos("e", &[Y, Z])]),
            clause("q", &[X, Y], vec![pos("p", &[X, Y])]),
        ],
    });
    out.push(Program { clauses: vec![clause("p", &[X], vec![pos("n", &[X])]), clause("q", &[X, Y], vec![pos("e", &[X, Y]), neg("p", &[X])])] });
    out.push(Program { clauses: vec![clause("q", &[X, Y], vec![pos("e", &[X, Y])])] });
    let mut seen = BTreeSet::new();
    out.retain(|p| seen.insert(p.clone()));
    out
}

fn history_edbs(quick: bool) -> Vec<Db> {
    let mk = |e: &[(i64, i64)], f: &[(i64, i64)], n: &[i64], m: &[i64]| -> Db {
        let mut d = Db::new();
        d.insert("e".into(), e.iter().map(|(a, b)| vec![*a, *b]).collect());
        d.insert("f".into(), f.iter().map(|(a, b)| vec![*a, *b]).collect());
        d.insert("n".into(), n.iter().map(|a| vec![*a]).collect());
        d.insert("m".into(), m.iter().map(|a| vec![*a]).collect());
        d
    };
    let mut v = vec![
        mk(&[(1, 2), (2, 3)], &[(2, 1)], &[1, 2], &[2]),
        mk(&[(1, 2), (2, 1), (3, 3)], &[(1, 3), (3, 2)], &[3], &[]),
        mk(&[(2, 3), (3, 1)], &[], &[1, 2, 3], &[1]),
    ];
    if !quick {
        v.push(mk(&[(1, 1)], &[(1, 2), (2, 3)], &[2], &[3]));
        v.push(mk(&[(1, 2), (1, 3), (2, 3), (3, 1)], &[(3, 3)], &[1], &[1, 2]));
        v.push(mk(&[], &[(1, 2)], &[1], &[]));
    }
    v
}

pub fn c04(args: &Args) -> i32 {
    quiet_panics();
    if let Some(path) = &args.replay {
        return replay(path);
    }
    let run = Run::new(args, "exploration", 50.0, 1500.0);
    let b = Bounds { quick: run.quick() };
    run.set_rule("(d) every ordered pair of the history pool on one engine, the first run under max_query_cost=1 (rejected by the cost guard where it costs anything), the second with the guard off: stored facts unchanged, second answer equal to a fresh engine's; (a) every program of F1-F6 (quick: F2,F3,F4,F5-union,F6-union; thorough: all) with <= K non-query clauses: ALL permutations of the non-query clauses (query clause last) and every single-clause duplication (adjacent / at end / query clause) x all small EDBs; each variant's answer must equal the original order's answer and R1. (b) all ordered pairs and triples over a pool of programs (complete constant-bound closure sub-family + shortest program of each family + programs redefining the same IDB names) executed on ONE reused IQLEngine: the last program's answer must equal a fresh engine's, and (c) the engine's stored base facts (as multisets) must be identical before and after every execution. non-trivial = distinct (program variant, EDB) / (sequence, EDB) with non-empty reference answer");
    run.assume("values are Int64 only; R1 is the reference for clause-set semantics");
    let fams: Vec<&str> = vec!["F1", "F2", "F3", "F4", "F5", "F6", "F8"];
    let progs: Vec<GenProg> = all_families(&b, &fams).into_iter().filter(|g| g.prog.clauses.len() >= 2).collect();
    let max_perm = if run.quick() { 3 } else { 4 };
    let budget = if run.quick() { 10 } else { 60 };
    run.put("programs_leg_a", json!(progs.len()));
    run.put("max_permuted_clauses", json!(max_perm));
    // leg (d): a query the cost guard rejects is history too: it must leave the stored facts alone and not colour later answers
    {
        let pool = history_pool(run.quick());
        let edbs = history_edbs(run.quick());
        let n = pool.len();
        run.put("rejected_query_sequences", json!(n * n * edbs.len()));
        run.par_for(n * n, threads(), |idx, l| {
            let (ri, qi) = (idx / n, idx % n);
            for (ei, edb) in edbs.iter().enumerate() {
                let last = &pool[qi];
                let fresh = run_engine(&last.text(), edb, CFG_DEFAULT, 1, 0);
                let mut eng = fresh_engine(edb);
                let facts0 = input_snapshot(&eng);
                eng.set_max_query_cost(1);
                let (rej, changed) = run_checked(&mut eng, &pool[ri].text());
                eng.set_max_query_cost(0);
                l.eval();
                let (out, changed2) = run_checked(&mut eng, &last.text());
                l.eval();
                if matches!(rej, EngineOut::Err(_)) {
                    l.nontrivial(fnv(format!("rej{ri}:{qi}:{ei}").as_bytes()));
                }
                l.outcome(fnv(format!("{:?}", answer_set(&out)).as_bytes()));
                let case = json!({"leg": "d", "sequence": [pool[ri].text(), last.text()], "sequence_programs": [pool[ri].clone(), last.clone()], "edb": db_to_json(edb)});
                if changed || changed2 {
                    run.violation(
                        &format!("{}:base_facts_changed_by_rejected_query", feature(&pool[ri])),
                        case.clone(),
                        format!("a program run under max_query_cost=1 ({}) or the program after it changed the stored base facts: before {:?} after {:?}", show_out(&rej), facts0, input_snapshot(&eng)),
                    );
                }
                if answer_set(&out) != answer_set(&fresh) {
                    run.violation(
                        &format!("{}:engine_history_after_rejected_query", feature(last)),
                        case,
                        format!("after a program run under max_query_cost=1 ({}) the next program answers {} ; a fresh engine answers {}", show_out(&rej), show_out(&out), show_out(&fresh)),
                    );
                }
            }
        });
    }
    let variants_total = std::sync::atomic::AtomicU64::new(0);
    run.par_for(progs.len(), threads(), |pi, l| {
        let g = &progs[pi];
        let p = &g.prog;
        let vars = variants(p, max_perm);
        variants_total.fetch_add(vars.len() as u64, std::sync::atomic::Ordering::Relaxed);
        let feat = feature(p);
        let arity = p.query_arity();
        let text = p.text();
        for edb in edbs_for(p, &b, budget) {
            let expect = match eval_query(p, &edb) {
                Ok(r) => r,
                Err(_) => continue,
            };
            let base = run_engine(&text, &edb, CFG_DEFAULT, 1, 0);
            l.eval();
            let base_set = answer_set(&base);
            let base_ok = compare(&base, &expect, arity).is_none();
            if !base_ok {
                l.count("original_order_differs_from_R1_left_to_C01", 1);
            }
            for (vname, vp) in &vars {
                let vt = vp.text();
                l.eval();
                let out = run_engine(&vt, &edb, CFG_DEFAULT, 1, 0);
                if !expect.is_empty() {
                    l.nontrivial(fnv(format!("{vt}|{}", fmt_db(&edb)).as_bytes()));
                }
                l.outcome(fnv(format!("{:?}", answer_set(&out)).as_bytes()));
                let same_as_base = answer_set(&out) == base_set && base_set.is_some();
                let same_as_r1 = compare(&out, &expect, arity).is_none();
                if same_as_base && (same_as_r1 || !base_ok) {
                    continue;
                }
                if !base_ok && !same_as_base && same_as_r1 {
                    // the variant is right and the original order is wrong: still an order dependence
                }
                let kind = if vname.starts_with("perm") { "clause_order" } else { "clause_repetition" };
                run.violation(
                    &format!("{feat}:{kind}"),
                    json!({"leg": "a", "program_text": text, "program": p, "variant": vname, "variant_program": vp, "variant_text": vt, "edb": db_to_json(&edb)}),
                    format!("original order gives {} ; variant {vname} gives {} ; reference {}", show_out(&base), show_out(&out), show_rows(&expect)),
                );
            }
        }
    });
    run.put("variants_leg_a", json!(variants_total.load(std::sync::atomic::Ordering::Relaxed)));

    // leg (b)+(c): engine history
    let pool = history_pool(run.quick());
    let edbs = history_edbs(run.quick());
    run.put("history_pool_size", json!(pool.len()));
    run.sample(json!({"history_pool": pool.iter().map(|p| p.text()).collect::<Vec<_>>()}));
    let n = pool.len();
    let depth3 = true;
    let total = if depth3 { n * n * n + n * n } else { n * n };
    run.put("history_sequences", json!(total * edbs.len()));
    run.par_for(total, threads(), |idx, l| {
        let seq: Vec<usize> = if idx < n * n { vec![idx / n, idx % n] } else {
            let k = idx - n * n;
            vec![k / (n * n), (k / n) % n, k % n]
        };
        for (ei, edb) in edbs.iter().enumerate() {
            let last = &pool[*seq.last().unwrap()];
            let ltext = last.text();
            let fresh = run_engine(&ltext, edb, CFG_DEFAULT, 1, 0);
            let mut eng = fresh_engine(edb);
            let facts0 = input_snapshot(&eng);
            let mut out = EngineOut::Err("unset".into());
            let mut changed_at: Option<usize> = None;
            for (k, pi) in seq.iter().enumerate() {
                let (o, changed) = run_checked(&mut eng, &pool[*pi].text());
                l.eval();
                if changed && changed_at.is_none() {
                    changed_at = Some(k);
                }
                out = o;
            }
            let expect = eval_query(last, edb).unwrap_or_default();
            if !expect.is_empty() {
                l.nontrivial(fnv(format!("{seq:?}{ei}").as_bytes()));
            }
            l.outcome(fnv(format!("{:?}", answer_set(&out)).as_bytes()));
            let case = json!({"leg": "b", "sequence": seq.iter().map(|i| pool[*i].text()).collect::<Vec<_>>(), "sequence_programs": seq.iter().map(|i| pool[*i].clone()).collect::<Vec<_>>(), "edb": db_to_json(edb)});
            if let Some(k) = changed_at {
                let facts1 = input_snapshot(&eng);
                run.violation(
                    &format!("{}:base_facts_changed_by_query", feature(&pool[seq[k]])),
                    case.clone(),
                    format!("executing program #{k} of the sequence changed the engine's stored base facts: before {:?} after {:?}", facts0, facts1),
                );
            }
            if answer_set(&out) != answer_set(&fresh) {
                run.violation(
                    &format!("{}:engine_history", feature(last)),
                    case,
                    format!("after running {} earlier program(s) on the same engine the last program answers {} ; a fresh engine answers {} ; reference {}", seq.len() - 1, show_out(&out), show_out(&fresh), show_rows(&expect)),
                );
            }
        }
    });
    run.finish()
}

fn replay(path: &std::path::Path) -> i32 {
    let j = read_replay(path);
    let c = &j["case"];
    let edb = db_from_json(&c["edb"]);
    let mut bad = false;
    if c["leg"] == "a" {
        let p: Program = serde_json::from_value(c["program"].clone()).expect("program");
        let vp: Program = serde_json::from_value(c["variant_program"].clone()).expect("variant");
        let a = run_engine(&p.text(), &edb, CFG_DEFAULT, 1, 0);
        let b = run_engine(&vp.text(), &edb, CFG_DEFAULT, 1, 0);
        println!("original:\n{}\n -> {}\nvariant:\n{}\n -> {}", p.text(), show_out(&a), vp.text(), show_out(&b));
        let expect = eval_query(&p, &edb).unwrap_or_default();
        bad = answer_set(&a) != answer_set(&b) || compare(&b, &expect, p.query_arity()).is_some() && compare(&a, &expect, p.query_arity()).is_none();
    } else {
        let seq: Vec<Program> = serde_json::from_value(c["sequence_programs"].clone()).expect("sequence");
        let mut eng = fresh_engine(&edb);
        let mut out = EngineOut::Err("unset".into());
        for (k, p) in seq.iter().enumerate() {
            let guarded = c["leg"] == "d" && k == 0;
            if guarded {
                eng.set_max_query_cost(1);
            }
            let (o, changed) = run_checked(&mut eng, &p.text());
            if guarded {
                eng.set_max_query_cost(0);
            }
            println!("{}\n -> {} (base facts changed: {changed})", p.text(), show_out(&o));
            bad |= changed;
            out = o;
        }
        let fresh = run_engine(&seq.last().unwrap().text(), &edb, CFG_DEFAULT, 1, 0);
        println!("fresh engine -> {}", show_out(&fresh));
        bad |= answer_set(&out) != answer_set(&fresh);
    }
    if bad {
        println!("VIOLATION property=C04 replay={}", path.display());
        1
    } else {
        println!("replay: property holds on this case");
        0
    }
}

#[allow(dead_code)]
fn _unused(_: Tuple, _: Value, _: J) {}
