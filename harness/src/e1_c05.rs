//! C05 — every IR rewrite pass maps a plan to one that denotes the same relation on every database.
//!
//! Bounded-exhaustive: plan trees (three sources) x small databases; each plan is executed by the real
//! CodeGenerator before and after each real rewrite pass (and the production compositions of the passes);
//! the answers are compared as sets. Nothing here re-implements plan semantics: the executor is the denotation.
//!
//!  S1  builder plans  : the IR the real IRBuilder emits for every program of the harness's program families
//!  S2  synthetic plans: every tree up to a node bound over Scan/Map/Filter/Join/Antijoin/Distinct/Union/Compute/
//!                       Aggregate built from small per-node menus, in the IR builder's naming discipline (join keys
//!                       are the shared variable names; a name repeats in a schema only for equal-valued columns)
//!  S3  predicate sweep: nine operator templates x EVERY predicate form x column choices, on databases whose
//!                       columns hold ints, strings, floats and bools
use crate::common::*;
use crate::gen::{all_families, Bounds};
use inputlayer::ast::{ArithExpr, ArithOp as AstArithOp, ComparisonOp};
use inputlayer::ir::{AggregateFunction, ArithOp, IRExpression};
use inputlayer::{BooleanSpecializer, CodeGenerator, IQLEngine, IRNode, JoinPlanner, Optimizer, Predicate, SemiringType, Tuple, Value};
use serde_json::json;
use std::collections::{BTreeMap, BTreeSet, HashMap};
use std::panic::{catch_unwind, AssertUnwindSafe};

// ---- plan construction helpers --------------------------------------------------------------------

fn scan(rel: &str, names: &[&str]) -> IRNode {
    IRNode::Scan { relation: rel.into(), schema: names.iter().map(|s| s.to_string()).collect() }
}
fn filter(p: Predicate, input: IRNode) -> IRNode {
    IRNode::Filter { input: Box::new(input), predicate: p }
}
fn map(proj: &[usize], input: IRNode) -> IRNode {
    let s = input.output_schema();
    IRNode::Map { output_schema: proj.iter().map(|&i| s[i].clone()).collect(), projection: proj.to_vec(), input: Box::new(input) }
}
fn distinct(input: IRNode) -> IRNode {
    IRNode::Distinct { input: Box::new(input) }
}
/// builder convention: keys are the shared variable names, output = left ++ right non-key columns
fn join(l: IRNode, r: IRNode) -> IRNode {
    let (ls, rs) = (l.output_schema(), r.output_schema());
    let (mut lk, mut rk) = (vec![], vec![]);
    for (i, v) in ls.iter().enumerate() {
        if ls[..i].contains(v) {
            continue;
        }
        if let Some(j) = rs.iter().position(|x| x == v) {
            if !rk.contains(&j) {
                lk.push(i);
                rk.push(j);
            }
        }
    }
    let mut out = ls.clone();
    for (j, v) in rs.iter().enumerate() {
        if !rk.contains(&j) {
            out.push(v.clone());
        }
    }
    IRNode::Join { left: Box::new(l), right: Box::new(r), left_keys: lk, right_keys: rk, output_schema: out }
}
fn antijoin(l: IRNode, r: IRNode) -> Option<IRNode> {
    let (ls, rs) = (l.output_schema(), r.output_schema());
    let (mut lk, mut rk) = (vec![], vec![]);
    for (j, v) in rs.iter().enumerate() {
        if rs[..j].contains(v) {
            continue;
        }
        if let Some(i) = ls.iter().position(|x| x == v) {
            lk.push(i);
            rk.push(j);
        }
    }
    if lk.is_empty() {
        return None;
    }
    Some(IRNode::Antijoin { left: Box::new(l), right: Box::new(r), left_keys: lk, right_keys: rk, output_schema: ls })
}
fn compute(exprs: Vec<(String, IRExpression)>, input: IRNode) -> IRNode {
    IRNode::Compute { input: Box::new(input), expressions: exprs }
}
fn aggregate(group_by: &[usize], aggs: Vec<(AggregateFunction, usize)>, input: IRNode) -> IRNode {
    let s = input.output_schema();
    let mut out: Vec<String> = group_by.iter().map(|&i| s[i].clone()).collect();
    for (k, (f, c)) in aggs.iter().enumerate() {
        out.push(format!("agg{k}_{}_{}", format!("{f:?}").to_lowercase(), s.get(*c).cloned().unwrap_or_default()));
    }
    IRNode::Aggregate { input: Box::new(input), group_by: group_by.to_vec(), aggregations: aggs, output_schema: out }
}
fn col(i: usize) -> IRExpression {
    IRExpression::Column(i)
}
fn arith(op: ArithOp, l: IRExpression, r: IRExpression) -> IRExpression {
    IRExpression::Arithmetic { op, left: Box::new(l), right: Box::new(r) }
}

fn size(ir: &IRNode) -> usize {
    match ir {
        IRNode::Scan { .. } | IRNode::HnswScan { .. } => 1,
        IRNode::Map { input, .. } | IRNode::Filter { input, .. } | IRNode::Distinct { input } | IRNode::Aggregate { input, .. } | IRNode::Compute { input, .. } | IRNode::FlatMap { input, .. } => 1 + size(input),
        IRNode::Join { left, right, .. } | IRNode::Antijoin { left, right, .. } | IRNode::JoinFlatMap { left, right, .. } => 1 + size(left) + size(right),
        IRNode::Union { inputs } => 1 + inputs.iter().map(size).sum::<usize>(),
    }
}
fn kinds(ir: &IRNode, out: &mut BTreeSet<&'static str>) {
    match ir {
        IRNode::Scan { .. } => {
            out.insert("Scan");
        }
        IRNode::HnswScan { .. } => {
            out.insert("HnswScan");
        }
        IRNode::Map { input, .. } => {
            out.insert("Map");
            kinds(input, out)
        }
        IRNode::Filter { input, .. } => {
            out.insert("Filter");
            kinds(input, out)
        }
        IRNode::Distinct { input } => {
            out.insert("Distinct");
            kinds(input, out)
        }
        IRNode::Aggregate { input, .. } => {
            out.insert("Aggregate");
            kinds(input, out)
        }
        IRNode::Compute { input, .. } => {
            out.insert("Compute");
            kinds(input, out)
        }
        IRNode::FlatMap { input, .. } => {
            out.insert("FlatMap");
            kinds(input, out)
        }
        IRNode::Join { left, right, .. } => {
            out.insert("Join");
            kinds(left, out);
            kinds(right, out)
        }
        IRNode::Antijoin { left, right, .. } => {
            out.insert("Antijoin");
            kinds(left, out);
            kinds(right, out)
        }
        IRNode::JoinFlatMap { left, right, .. } => {
            out.insert("JoinFlatMap");
            kinds(left, out);
            kinds(right, out)
        }
        IRNode::Union { inputs } => {
            out.insert("Union");
            for i in inputs {
                kinds(i, out)
            }
        }
    }
}
fn shape(ir: &IRNode) -> String {
    let mut k = BTreeSet::new();
    kinds(ir, &mut k);
    k.remove("Scan");
    if k.is_empty() {
        "Scan".into()
    } else {
        k.into_iter().collect::<Vec<_>>().join("+")
    }
}
fn scans(ir: &IRNode, out: &mut BTreeMap<String, usize>) {
    match ir {
        IRNode::Scan { relation, schema } => {
            out.insert(relation.clone(), schema.len());
        }
        IRNode::HnswScan { .. } => {}
        IRNode::Map { input, .. } | IRNode::Filter { input, .. } | IRNode::Distinct { input } | IRNode::Aggregate { input, .. } | IRNode::Compute { input, .. } | IRNode::FlatMap { input, .. } => scans(input, out),
        IRNode::Join { left, right, .. } | IRNode::Antijoin { left, right, .. } | IRNode::JoinFlatMap { left, right, .. } => {
            scans(left, out);
            scans(right, out)
        }
        IRNode::Union { inputs } => {
            for i in inputs {
                scans(i, out)
            }
        }
    }
}

// ---- S2: synthetic plans ---------------------------------------------------------------------------

fn leaves() -> Vec<IRNode> {
    vec![
        scan("e", &["A", "B"]),
        scan("e", &["B", "C"]),
        scan("f", &["B", "C"]),
        scan("f", &["A", "C"]),
        scan("m", &["A"]),
        scan("m", &["C"]),
        scan("w", &["A", "B", "C"]),
        filter(Predicate::ColumnsEq(0, 1), scan("e", &["A", "A"])),
        filter(Predicate::ColumnEqConst(1, 2), scan("f", &["B", "_const_f_1"])),
    ]
}

fn small_predicates(n: usize) -> Vec<Predicate> {
    let l = n - 1;
    let mut v = vec![Predicate::ColumnEqConst(0, 2), Predicate::ColumnGtConst(l, 1), Predicate::Or(Box::new(Predicate::ColumnEqConst(0, 1)), Box::new(Predicate::ColumnLeConst(l, 1))), Predicate::True, Predicate::False];
    if n >= 2 {
        v.push(Predicate::ColumnsLt(0, l));
        v.push(Predicate::ColumnsNe(l, 0));
    }
    v
}

fn projections(n: usize) -> Vec<Vec<usize>> {
    let mut v: Vec<Vec<usize>> = vec![(0..n).collect(), (0..n).rev().collect(), vec![0], vec![n - 1], vec![0, 0], (1..n).collect()];
    if n >= 2 {
        let mut sw: Vec<usize> = (0..n).collect();
        sw.swap(0, 1);
        v.push(sw);
        v.push(vec![n - 1, 0]);
    }
    v.retain(|p| !p.is_empty());
    let mut seen = BTreeSet::new();
    v.retain(|p| seen.insert(p.clone()));
    v
}

fn unary_over(p: &IRNode) -> Vec<IRNode> {
    let s = p.output_schema();
    let n = s.len();
    let mut out = vec![];
    if n == 0 {
        return out;
    }
    for pr in projections(n) {
        out.push(map(&pr, p.clone()));
    }
    for pd in small_predicates(n) {
        out.push(filter(pd, p.clone()));
    }
    out.push(distinct(p.clone()));
    out.push(compute(vec![(format!("S{n}"), arith(ArithOp::Add, col(0), arith(ArithOp::Mul, col(n - 1), IRExpression::IntConstant(2))))], p.clone()));
    out.push(compute(vec![(format!("K{n}"), IRExpression::IntConstant(2))], p.clone()));
    out.push(aggregate(&[0], vec![(AggregateFunction::Count, n - 1)], p.clone()));
    out.push(aggregate(&[n - 1], vec![(AggregateFunction::Min, 0)], p.clone()));
    out.push(aggregate(&[], vec![(AggregateFunction::Sum, 0)], p.clone()));
    if n >= 2 {
        out.push(aggregate(&[0], vec![(AggregateFunction::Sum, n - 1), (AggregateFunction::Max, 1)], p.clone()));
    }
    out
}

fn binary_over(p: &IRNode, q: &IRNode) -> Vec<IRNode> {
    let mut out = vec![join(p.clone(), q.clone())];
    if let Some(a) = antijoin(p.clone(), q.clone()) {
        out.push(a);
    }
    if p.output_schema().len() == q.output_schema().len() {
        out.push(IRNode::Union { inputs: vec![p.clone(), q.clone()] });
    }
    out
}

/// every plan with exactly `k` nodes, for k = 1..=max (a filtered leaf counts as one node)
fn synthetic(max: usize) -> Vec<Vec<IRNode>> {
    let mut by_size: Vec<Vec<IRNode>> = vec![vec![], leaves()];
    for k in 2..=max {
        let mut cur = vec![];
        for p in &by_size[k - 1] {
            cur.extend(unary_over(p));
        }
        for a in 1..k - 1 {
            let b = k - 1 - a;
            if b < 1 {
                continue;
            }
            for p in &by_size[a] {
                for q in &by_size[b] {
                    cur.extend(binary_over(p, q));
                }
            }
        }
        by_size.push(cur);
    }
    by_size
}

// ---- S3: predicate sweep ---------------------------------------------------------------------------

fn all_predicate_forms(n: usize, names: &[String]) -> Vec<(String, Predicate)> {
    use Predicate::*;
    let mut out: Vec<(String, Predicate)> = vec![];
    let cols: Vec<usize> = (0..n).collect();
    for &c in &cols {
        out.push((format!("ColumnEqConst@{c}"), ColumnEqConst(c, 2)));
        out.push((format!("ColumnNeConst@{c}"), ColumnNeConst(c, 2)));
        out.push((format!("ColumnGtConst@{c}"), ColumnGtConst(c, 1)));
        out.push((format!("ColumnLtConst@{c}"), ColumnLtConst(c, 2)));
        out.push((format!("ColumnGeConst@{c}"), ColumnGeConst(c, 2)));
        out.push((format!("ColumnLeConst@{c}"), ColumnLeConst(c, 1)));
        out.push((format!("ColumnEqStr@{c}"), ColumnEqStr(c, "b".into())));
        out.push((format!("ColumnNeStr@{c}"), ColumnNeStr(c, "b".into())));
        out.push((format!("ColumnLtStr@{c}"), ColumnLtStr(c, "b".into())));
        out.push((format!("ColumnGtStr@{c}"), ColumnGtStr(c, "a".into())));
        out.push((format!("ColumnLeStr@{c}"), ColumnLeStr(c, "a".into())));
        out.push((format!("ColumnGeStr@{c}"), ColumnGeStr(c, "b".into())));
        out.push((format!("ColumnEqBool@{c}"), ColumnEqBool(c, true)));
        out.push((format!("ColumnNeBool@{c}"), ColumnNeBool(c, true)));
        out.push((format!("ColumnEqFloat@{c}"), ColumnEqFloat(c, 2.5)));
        out.push((format!("ColumnNeFloat@{c}"), ColumnNeFloat(c, 2.5)));
        out.push((format!("ColumnGtFloat@{c}"), ColumnGtFloat(c, 2.0)));
        out.push((format!("ColumnLtFloat@{c}"), ColumnLtFloat(c, 2.0)));
        out.push((format!("ColumnGeFloat@{c}"), ColumnGeFloat(c, 2.5)));
        out.push((format!("ColumnLeFloat@{c}"), ColumnLeFloat(c, 1.5)));
    }
    for &a in &cols {
        for &b in &cols {
            if a == b {
                continue;
            }
            out.push((format!("ColumnsEq@{a},{b}"), ColumnsEq(a, b)));
            out.push((format!("ColumnsNe@{a},{b}"), ColumnsNe(a, b)));
            out.push((format!("ColumnsLt@{a},{b}"), ColumnsLt(a, b)));
            out.push((format!("ColumnsGt@{a},{b}"), ColumnsGt(a, b)));
            out.push((format!("ColumnsLe@{a},{b}"), ColumnsLe(a, b)));
            out.push((format!("ColumnsGe@{a},{b}"), ColumnsGe(a, b)));
            // col_a <op> col_b + 1   and   col_a + col_b <op> 3   (variable names are the schema names)
            if names[a] != names[b] {
                let vm: HashMap<String, usize> = [(names[b].clone(), b)].into_iter().collect();
                let ex = ArithExpr::Binary { op: AstArithOp::Add, left: Box::new(ArithExpr::Variable(names[b].clone())), right: Box::new(ArithExpr::Constant(1)) };
                out.push((format!("ColumnCompareArith@{a},{b}"), ColumnCompareArith(a, ComparisonOp::Equal, ex.clone(), vm.clone())));
                out.push((format!("ColumnCompareArithLt@{a},{b}"), ColumnCompareArith(a, ComparisonOp::LessThan, ex, vm)));
                let vm2: HashMap<String, usize> = [(names[a].clone(), a), (names[b].clone(), b)].into_iter().collect();
                let ex2 = ArithExpr::Binary { op: AstArithOp::Add, left: Box::new(ArithExpr::Variable(names[a].clone())), right: Box::new(ArithExpr::Binary { op: AstArithOp::Mul, left: Box::new(ArithExpr::Variable(names[b].clone())), right: Box::new(ArithExpr::Constant(2)) }) };
                out.push((format!("ArithCompareConst@{a},{b}"), ArithCompareConst(ex2, ComparisonOp::GreaterOrEqual, 5, vm2)));
            }
            out.push((format!("And@{a},{b}"), And(Box::new(ColumnGtConst(a, 1)), Box::new(ColumnLtConst(b, 2)))));
            out.push((format!("Or@{a},{b}"), Or(Box::new(ColumnEqConst(a, 1)), Box::new(ColumnEqStr(b, "b".into())))));
        }
    }
    out.push(("True".into(), True));
    out.push(("False".into(), False));
    out
}

fn sweep_plans() -> Vec<(String, IRNode)> {
    let e = || scan("e", &["A", "B"]);
    let f = || scan("f", &["B", "C"]);
    let m = || scan("m", &["C"]);
    let j = || join(e(), f());
    let mut out = vec![];
    let templates: Vec<(&str, IRNode, Box<dyn Fn(Predicate) -> IRNode>)> = vec![
        ("filter_over_join", j(), Box::new(move |p| filter(p, join(scan("e", &["A", "B"]), scan("f", &["B", "C"]))))),
        ("filter_over_map_over_join", map(&[2, 0], j()), Box::new(move |p| filter(p, map(&[2, 0], join(scan("e", &["A", "B"]), scan("f", &["B", "C"])))))),
        ("map_over_filter_over_join", j(), Box::new(move |p| map(&[2, 0], filter(p, join(scan("e", &["A", "B"]), scan("f", &["B", "C"])))))),
        ("filter_over_filter_over_scan", scan("w", &["A", "B", "C"]), Box::new(move |p| filter(p, filter(Predicate::ColumnsNe(0, 2), scan("w", &["A", "B", "C"]))))),
        ("filter_over_compute_over_join", compute(vec![("S".into(), arith(ArithOp::Add, col(0), col(2)))], j()), Box::new(move |p| filter(p, compute(vec![("S".into(), arith(ArithOp::Add, col(0), col(2)))], join(scan("e", &["A", "B"]), scan("f", &["B", "C"])))))),
        ("filter_over_antijoin", j(), Box::new(move |p| filter(p, antijoin(join(scan("e", &["A", "B"]), scan("f", &["B", "C"])), scan("m", &["C"])).unwrap()))),
        ("map_over_filter_over_3way_join", join(j(), m()), Box::new(move |p| map(&[0, 2], filter(p, join(join(scan("e", &["A", "B"]), scan("f", &["B", "C"])), scan("m", &["C"])))))),
        ("aggregate_over_filter_over_join", j(), Box::new(move |p| aggregate(&[0], vec![(AggregateFunction::Count, 2)], filter(p, join(scan("e", &["A", "B"]), scan("f", &["B", "C"])))))),
        ("union_of_filtered_joins", j(), Box::new(move |p| IRNode::Union { inputs: vec![filter(p, join(scan("e", &["A", "B"]), scan("f", &["B", "C"]))), filter(Predicate::False, join(scan("e", &["A", "B"]), scan("f", &["B", "C"]))), map(&[0, 0, 0], scan("m", &["C"]))] })),
        ("filter_over_right_deep_join", join(m(), j()), Box::new(move |p| filter(p, join(scan("m", &["C"]), join(scan("e", &["A", "B"]), scan("f", &["B", "C"])))))),
    ];
    let _ = (e, f, m);
    for (name, below, build) in templates {
        let names = below.output_schema();
        for (pname, p) in all_predicate_forms(names.len(), &names) {
            out.push((format!("{name}|{pname}"), build(p)));
        }
    }
    out
}

// ---- databases -------------------------------------------------------------------------------------

type Db = BTreeMap<String, Vec<Vec<Value>>>;

fn iv(x: i64) -> Value {
    Value::Int64(x)
}

fn int_menu(arity: usize) -> Vec<Vec<Vec<Value>>> {
    let t = |xs: &[i64]| xs.iter().map(|x| iv(*x)).collect::<Vec<_>>();
    match arity {
        1 => {
            let mut out = vec![];
            for mask in 0..8u32 {
                out.push((0..3).filter(|b| mask & (1 << b) != 0).map(|b| t(&[b as i64 + 1])).collect());
            }
            out
        }
        2 => {
            // every subset of {1,2}^2, then sets that bring in the third value
            let uni = [[1, 1], [1, 2], [2, 1], [2, 2]];
            let mut out: Vec<Vec<Vec<Value>>> = vec![];
            for mask in 0..16u32 {
                out.push((0..4).filter(|b| mask & (1 << b) != 0).map(|b| t(&uni[b])).collect());
            }
            for extra in [vec![[1, 3]], vec![[3, 1]], vec![[2, 3], [3, 2]], vec![[3, 3], [1, 2]], vec![[1, 2], [2, 3]], vec![[1, 2], [2, 3], [3, 1]], vec![[1, 2], [1, 3], [2, 3]]] {
                out.push(extra.iter().map(|r| t(r)).collect());
            }
            out
        }
        _ => {
            let mut out: Vec<Vec<Vec<Value>>> = vec![vec![]];
            let mut uni = vec![];
            for a in 1..=2 {
                for b in 1..=2 {
                    for c in 1..=2 {
                        uni.push(vec![a, b, c]);
                    }
                }
            }
            for u in &uni {
                out.push(vec![t(u)]);
            }
            for set in [vec![vec![1, 2, 1], vec![2, 1, 2]], vec![vec![1, 1, 2], vec![1, 2, 2]], vec![vec![1, 2, 3], vec![3, 2, 1]], vec![vec![2, 2, 1], vec![1, 2, 2], vec![2, 1, 3]], vec![vec![1, 2, 3], vec![2, 3, 1], vec![3, 1, 2]], vec![vec![1, 1, 1], vec![1, 1, 2], vec![1, 2, 1], vec![2, 1, 1]]] {
                out.push(set.iter().map(|r| t(r)).collect());
            }
            let _ = arity;
            out
        }
    }
}

/// databases for a plan: the product of the per-relation menus; beyond `cap` a fixed-stride subset (reported)
fn dbs_for(rels: &BTreeMap<String, usize>, cap: usize) -> (Vec<Db>, bool) {
    let mut menus: Vec<(String, Vec<Vec<Vec<Value>>>)> = rels.iter().map(|(r, a)| (r.clone(), int_menu(*a))).collect();
    let mut total: usize = menus.iter().map(|m| m.1.len()).product();
    if total > cap {
        // the subset keeps the databases that can tell plans apart: relations with at least two tuples
        for (_, m) in menus.iter_mut() {
            m.retain(|set| set.len() >= 2);
        }
        total = menus.iter().map(|m| m.1.len()).product();
    }
    let pick = |mut idx: usize| -> Db {
        let mut db = Db::new();
        for (r, m) in &menus {
            db.insert(r.clone(), m[idx % m.len()].clone());
            idx /= m.len();
        }
        db
    };
    if total <= cap {
        ((0..total).map(pick).collect(), false)
    } else {
        // a stride coprime with the total walks the product evenly; the all-largest database is always included
        let mut stride = total / cap + 1;
        while gcd(stride, total) != 1 {
            stride += 1;
        }
        let mut v: Vec<Db> = (0..cap).map(|k| pick((k * stride + 7) % total)).collect();
        v.push(pick(total - 1));
        (v, true)
    }
}
fn gcd(a: usize, b: usize) -> usize {
    if b == 0 {
        a
    } else {
        gcd(b, a % b)
    }
}

fn mixed_dbs() -> Vec<Db> {
    // values v1 < v2 of four kinds; variable A, B, C get a kind each
    let kinds: Vec<[Value; 2]> = vec![[iv(1), iv(2)], [Value::String("a".into()), Value::String("b".into())], [Value::Float64(1.5), Value::Float64(2.5)], [Value::Bool(false), Value::Bool(true)]];
    let combos: Vec<[usize; 3]> = vec![[0, 0, 0], [1, 1, 1], [2, 2, 2], [3, 3, 3], [1, 0, 0], [0, 1, 0], [0, 0, 1], [2, 0, 0], [0, 2, 0], [0, 0, 2], [3, 0, 1], [1, 0, 2], [2, 0, 3], [0, 0, 3]];
    let pats: Vec<Vec<[usize; 2]>> = vec![vec![[0, 0], [1, 1]], vec![[0, 1], [1, 0]], vec![[1, 0]], vec![[0, 0], [0, 1], [1, 1]]];
    let mut out = vec![];
    for k in &combos {
        for pe in &pats {
            for pf in &pats {
                let mut db = Db::new();
                db.insert("e".into(), pe.iter().map(|p| vec![kinds[k[0]][p[0]].clone(), kinds[k[1]][p[1]].clone()]).collect());
                db.insert("f".into(), pf.iter().map(|p| vec![kinds[k[1]][p[0]].clone(), kinds[k[2]][p[1]].clone()]).collect());
                db.insert("m".into(), vec![vec![kinds[k[2]][1].clone()]]);
                db.insert("w".into(), vec![vec![kinds[k[0]][0].clone(), kinds[k[1]][1].clone(), kinds[k[2]][1].clone()], vec![kinds[k[0]][1].clone(), kinds[k[1]][0].clone(), kinds[k[2]][1].clone()], vec![kinds[k[0]][1].clone(), kinds[k[1]][1].clone(), kinds[k[2]][0].clone()]]);
                out.push(db);
            }
        }
    }
    out
}

// ---- execution and the rewrite variants ------------------------------------------------------------

fn exec(ir: &IRNode, semiring: SemiringType, db: &Db) -> Result<BTreeSet<String>, String> {
    let r = catch_unwind(AssertUnwindSafe(|| {
        let mut cg = CodeGenerator::new();
        cg.set_semiring_type(semiring);
        for (r, rows) in db {
            cg.add_input(r.clone(), rows.iter().map(|v| Tuple::new(v.clone())).collect());
        }
        cg.execute(ir)
    }));
    match r {
        Ok(Ok(rows)) => Ok(rows.iter().map(|t| format!("{:?}", t.values())).collect()),
        Ok(Err(e)) => Err(e),
        Err(p) => Err(format!("panic: {}", crate::e1::panic_msg(&p))),
    }
}

struct Variant {
    pass: &'static str,
    ir: IRNode,
    semiring: SemiringType,
}

fn variants(p: &IRNode) -> Vec<Result<Variant, (&'static str, String)>> {
    let guarded = |pass: &'static str, f: &dyn Fn() -> (IRNode, SemiringType)| -> Result<Variant, (&'static str, String)> {
        match catch_unwind(AssertUnwindSafe(f)) {
            Ok((ir, semiring)) => Ok(Variant { pass, ir, semiring }),
            Err(e) => Err((pass, crate::e1::panic_msg(&e))),
        }
    };
    let c = SemiringType::Counting;
    vec![
        guarded("optimizer", &|| (Optimizer::new().optimize(p.clone()), c)),
        guarded("join_planning", &|| (JoinPlanner::new().plan_joins(p.clone()), c)),
        guarded("boolean_specialization", &|| {
            let (ir, a) = BooleanSpecializer::new().specialize(p.clone());
            (ir, a.semiring)
        }),
        guarded("join_planning+optimizer", &|| (Optimizer::new().optimize(JoinPlanner::new().plan_joins(p.clone())), c)),
        guarded("boolean_specialization+optimizer", &|| {
            let (ir, a) = BooleanSpecializer::new().specialize(p.clone());
            (Optimizer::new().optimize(ir), a.semiring)
        }),
        guarded("join_planning+boolean_specialization+optimizer", &|| {
            let (ir, a) = BooleanSpecializer::new().specialize(JoinPlanner::new().plan_joins(p.clone()));
            (Optimizer::new().optimize(ir), a.semiring)
        }),
    ]
}

fn fmt_db(db: &Db) -> String {
    db.iter().map(|(r, rows)| format!("{r}={}", rows.iter().map(|t| format!("({})", t.iter().map(|v| format!("{v}")).collect::<Vec<_>>().join(","))).collect::<Vec<_>>().join(""))).collect::<Vec<_>>().join(" ")
}

struct Case {
    source: &'static str,
    label: String,
    ir: IRNode,
}

/// returns the number of (plan, database) pairs executed
fn check_plan(run: &Run, l: &mut Local, case: &Case, dbs: &[Db]) {
    let p = &case.ir;
    let mut vs: Vec<Variant> = vec![];
    for v in variants(p) {
        match v {
            Ok(v) => {
                // identical rewrites are executed once
                if (v.ir == *p && v.semiring == SemiringType::Counting) || vs.iter().any(|o| o.ir == v.ir && o.semiring == v.semiring) {
                    if v.ir != *p || v.semiring != SemiringType::Counting {
                        l.count("variant_same_as_an_earlier_one", 1);
                    } else {
                        l.count("rewrite_left_plan_unchanged", 1);
                    }
                    continue;
                }
                l.count("rewritten_plans", 1);
                vs.push(v);
            }
            Err((pass, msg)) => {
                run.violation(&format!("{pass}:pass_panics:{}:{}", case.source, shape(p)), json!({"source": case.source, "label": case.label, "plan": p.pretty_print(0)}), format!("{pass} panics on the plan below: {msg}\n{}", p.pretty_print(1)));
            }
        }
    }
    if vs.is_empty() {
        return;
    }
    for db in dbs {
        l.eval();
        let base = match exec(p, SemiringType::Counting, db) {
            Ok(b) => b,
            Err(_) => {
                l.count("original_plan_not_executable_not_a_case", 1);
                continue;
            }
        };
        if !base.is_empty() {
            l.nontrivial(fnv(format!("{}|{}", case.label, fmt_db(db)).as_bytes()));
        }
        l.outcome(fnv(format!("{base:?}").as_bytes()) % 1024);
        for v in &vs {
            let got = exec(&v.ir, v.semiring, db);
            let bad = match &got {
                Ok(g) => *g != base,
                Err(_) => true,
            };
            if bad {
                let kind = match &got {
                    Err(_) => "rewritten_plan_fails",
                    Ok(g) if g.is_subset(&base) => "tuples_lost",
                    Ok(g) if g.is_superset(&base) => "tuples_added",
                    _ => "tuples_differ",
                };
                let tag = if case.source == "sweep" { case.label.split('@').next().unwrap_or("").to_string() } else { shape(p) };
                run.violation(
                    &format!("{}:{kind}:{}:{tag}", v.pass, case.source),
                    json!({"source": case.source, "label": case.label, "pass": v.pass, "db": fmt_db(db), "plan": p.pretty_print(0), "rewritten": v.ir.pretty_print(0), "semiring": format!("{:?}", v.semiring)}),
                    format!("pass {} on database [{}]: original plan answers {:?}, rewritten plan (semiring {:?}) answers {:?}\n  original:\n{}\n  rewritten:\n{}", v.pass, fmt_db(db), base, v.semiring, got, p.pretty_print(2), v.ir.pretty_print(2)),
                );
            }
        }
    }
}

fn builder_plans(quick: bool) -> Vec<Case> {
    let b = Bounds { quick };
    let progs = all_families(&b, &["F1", "F2", "F3", "F4", "F5", "F6", "F8", "F9"]);
    let mut seen = BTreeSet::new();
    let mut out = vec![];
    for g in progs {
        let text = g.prog.text();
        let mut e = IQLEngine::new();
        if e.parse(&text).is_err() {
            continue;
        }
        if catch_unwind(AssertUnwindSafe(|| e.build_ir(false))).map(|r| r.is_err()).unwrap_or(true) {
            continue;
        }
        for n in e.ir_nodes() {
            let key = format!("{n:?}");
            if seen.insert(key) {
                out.push(Case { source: "builder", label: format!("{}: {}", g.family, text.replace('\n', " ; ")), ir: n.clone() });
            }
        }
    }
    out
}

pub fn c05(args: &Args) -> i32 {
    quiet_panics();
    if let Some(r) = &args.replay {
        let j = read_replay(r);
        println!("C05 replay file: the failing plan, its rewrite and the database are in `case`:\n{}", serde_json::to_string_pretty(&j["case"]).unwrap_or_default());
        println!("re-running the whole check (every case is deterministic):");
    }
    let run = Run::new(args, "exploration", 55.0, 1500.0);
    run.set_rule("plan trees from three sources — S1 the IR the real IRBuilder emits for every program of families F1-F6,F8,F9; S2 EVERY tree with up to 3 nodes plus every 32nd tree of 4 nodes (thorough: every tree with up to 5 nodes) over Scan/filtered Scan leaves, Map (8 projections), Filter (7 predicates), Distinct, Compute (2), Aggregate (4), Join, Antijoin, Union in the builder's naming discipline; S3 ten operator templates x EVERY predicate form x every column choice — each executed by the real CodeGenerator on small databases before and after each real pass: Optimizer::optimize, JoinPlanner::plan_joins, BooleanSpecializer::specialize (executed under the semiring it selects), and the three production compositions; answers compared as sets. Databases: the full product of per-relation menus (arity 1: all 8 subsets of {1,2,3}; arity 2: all 16 subsets of {1,2}^2 plus 7 sets with a third value; arity 3: 15 sets) when it is within the cap, else a fixed-stride subset (counted); S3 uses 224 databases whose columns hold ints, strings, floats and bools. non-trivial = distinct (plan, database) with a non-empty answer");
    run.assume("the real CodeGenerator::execute (with the semiring the specializer selects) is the denotation of a plan; no harness re-implementation of plan semantics is involved");
    let quick = run.quick();
    let mut cases: Vec<Case> = vec![];
    // S3 first (cheap, widest predicate coverage), then S1, then S2 by size
    let sweep: Vec<Case> = sweep_plans().into_iter().map(|(label, ir)| Case { source: "sweep", label, ir }).collect();
    let n_sweep = sweep.len();
    let builder = builder_plans(quick);
    let n_builder = builder.len();
    let syn = synthetic(if quick { 4 } else { 5 });
    let syn_sizes: Vec<usize> = syn.iter().map(|v| v.len()).collect();
    run.put("plans_sweep", json!(n_sweep));
    run.put("plans_builder", json!(n_builder));
    run.put("plans_synthetic_by_size", json!(syn_sizes));
    let mixed = mixed_dbs();
    run.put("mixed_databases", json!(mixed.len()));
    cases.extend(sweep);
    cases.extend(builder);
    for (k, v) in syn.into_iter().enumerate() {
        for (i, ir) in v.into_iter().enumerate() {
            cases.push(Case { source: "synthetic", label: format!("size{k}#{i}"), ir });
        }
    }
    // per-case database caps; quick walks a fixed sub-list of the size-4 trees so that it completes
    let mut work: Vec<(usize, usize, usize)> = vec![]; // (case index, cap for the int menus, stride over the mixed databases)
    for (i, c) in cases.iter().enumerate() {
        let sz = size(&c.ir);
        match (c.source, quick) {
            ("sweep", true) => work.push((i, 12, 8)),
            ("sweep", false) => work.push((i, 200, 1)),
            ("builder", true) => work.push((i, 24, 0)),
            ("builder", false) => work.push((i, 400, 0)),
            (_, true) if sz <= 3 => work.push((i, 24, 0)),
            (_, true) => {
                if i % 32 == 0 {
                    work.push((i, 12, 0))
                }
            }
            (_, false) if sz <= 3 => work.push((i, 4000, 0)),
            (_, false) if sz == 4 => work.push((i, 64, 0)),
            (_, false) => work.push((i, 6, 0)),
        }
    }
    // small synthetic trees first, then builder plans, then the predicate sweep, then the larger synthetic trees:
    // if the time cap ends the walk, what was covered is the cheaper, denser part
    let rank = |i: usize| -> usize {
        let c = &cases[i];
        match c.source {
            "synthetic" if size(&c.ir) <= 3 => 0,
            "builder" => 1,
            "sweep" => 2,
            _ => 3,
        }
    };
    work.sort_by_key(|w| (rank(w.0), w.0));
    run.put("plans_selected_for_this_tier", json!(work.len()));
    let strided = std::sync::atomic::AtomicUsize::new(0);
    let full = std::sync::atomic::AtomicUsize::new(0);
    let done = run.par_for(work.len(), threads(), |wi, l| {
        let (i, cap, mixed_stride) = work[wi];
        let case = &cases[i];
        if mixed_stride > 0 {
            let sub: Vec<Db> = mixed.iter().enumerate().filter(|(k, _)| (k + i) % mixed_stride == 0).map(|(_, d)| d.clone()).collect();
            check_plan(&run, l, case, &sub);
        }
        let mut rels = BTreeMap::new();
        scans(&case.ir, &mut rels);
        let (dbs, was_strided) = dbs_for(&rels, cap);
        if was_strided {
            strided.fetch_add(1, std::sync::atomic::Ordering::Relaxed);
        } else {
            full.fetch_add(1, std::sync::atomic::Ordering::Relaxed);
        }
        check_plan(&run, l, case, &dbs);
        if run.want_sample() && i % 997 == 3 {
            run.sample(json!({"source": case.source, "label": case.label, "plan": case.ir.pretty_print(0), "databases": dbs.len()}));
        }
    });
    run.put("plans_total", json!(cases.len()));
    run.put("plans_completed", json!(done));
    run.put("plans_with_full_database_product", json!(full.load(std::sync::atomic::Ordering::Relaxed)));
    run.put("plans_with_strided_database_product", json!(strided.load(std::sync::atomic::Ordering::Relaxed)));
    // "exhaustive" would claim more than this tier does: database products above the cap are walked at a fixed stride,
    // and the quick tier takes a fixed sub-list of the four-node trees
    if quick || strided.load(std::sync::atomic::Ordering::Relaxed) > 0 {
        run.put("exhaustive", json!(false));
        run.put("exhaustive_note", json!("complete over the plans selected for this tier; database products above the per-plan cap are walked at a fixed stride (counted in plans_with_strided_database_product)"));
    }
    run.finish()
}
