//! C21 (proof trees are valid derivations), C22 (every answer can be explained), C23 (why-not is truthful).
//! E1 PROG over positive / negation / recursive programs x small EDBs, through Handler `.why` / `.why_not`,
//! judged by an independent proof checker against the reference model R1.

use crate::common::*;
use crate::e2_handler::{messages, Env};
use crate::gen::*;
use crate::r1::*;
use inputlayer::provenance::proof_tree::{NodeKind, ProofNode, ProofTree};
use inputlayer::provenance::Blocker;
use inputlayer::{Tuple, Value};
use serde_json::json;
use std::collections::{BTreeMap, BTreeSet};
use std::panic::{catch_unwind, AssertUnwindSafe};

fn vi(v: &Value) -> Option<i64> {
    match v {
        Value::Int32(i) => Some(*i as i64),
        Value::Int64(i) => Some(*i),
        _ => None,
    }
}
fn norm(s: &str) -> String {
    s.chars().filter(|c| !c.is_whitespace()).collect()
}

/// Programs for the provenance checks: IDB relations only through persistent rules; the relation asked about is
/// the head of the last non-query clause (the generated query clause is dropped).
fn prov_programs(quick: bool) -> Vec<GenProg> {
    let b = Bounds { quick: true };
    let _ = quick;
    let mut out = vec![];
    for g in all_families(&b, &["F1", "F2", "F3", "F4", "F8"]) {
        // drop the final query clause when it merely reads an IDB; keep programs whose clauses have no aggregates/arithmetic
        let mut cl = g.prog.clauses.clone();
        let qc = cl.last().unwrap().clone();
        let reads_idb = qc.body.len() == 1 && matches!(&qc.body[0], Lit::Pos(a) if cl.iter().any(|c| c.rel == a.rel));
        if reads_idb && cl.len() > 1 {
            cl.pop();
        }
        if cl.iter().any(|c| c.head.iter().any(|h| matches!(h, HeadArg::A(..))) || c.body.iter().any(|l| matches!(l, Lit::Assign(..)))) {
            continue;
        }
        // mutual recursion is C01's known finding: its wrong answers would only be re-reported here
        if sccs(&Program { clauses: cl.clone() }).iter().any(|c| c.len() >= 2) {
            continue;
        }
        out.push(GenProg { family: g.family, prog: Program { clauses: cl } });
    }
    let mut seen = BTreeSet::new();
    out.retain(|g| seen.insert(g.prog.clone()));
    if quick {
        // deterministic sub-family: every 3rd program of the large families
        // (atoms that repeat a variable are kept in full: they are where unification can go wrong)
        let repeats = |g: &GenProg| g.prog.clauses.iter().any(|c| c.body.iter().any(|l| matches!(l, Lit::Pos(a) | Lit::Neg(a) if a.args.iter().enumerate().any(|(i, t)| matches!(t, Var(_)) && a.args[..i].contains(t)))));
        out = out.into_iter().enumerate().filter(|(i, g)| g.family == "F3" || g.family == "F4neg" || repeats(g) || i % 3 == 0).map(|(_, g)| g).collect();
    }
    out
}

fn setup(p: &Program, edb: &Db) -> Result<Env, String> {
    let env = Env::new("prov");
    env.create_kg("A");
    for (rel, rows) in edb {
        if rows.is_empty() {
            continue;
        }
        env.insert("A", rel, rows.iter().map(|r| Tuple::new(r.iter().map(|x| Value::Int64(*x)).collect())).collect());
    }
    for c in &p.clauses {
        let r = env.query_program(Some("A"), &format!("+{}", fmt_clause(c)));
        if r.is_err() || messages(&r).iter().any(|m| m.contains("failed")) {
            return Err(format!("rule `{}` rejected: {:?}", fmt_clause(c), messages(&r)));
        }
    }
    Ok(env)
}

struct Ctx<'a> {
    prog: &'a Program,
    edb: &'a Db,
    model: Db,
}

fn matches_atom(a: &Atom, bind: &BTreeMap<String, i64>, concl_args: &[i64]) -> bool {
    if a.args.len() != concl_args.len() {
        return false;
    }
    // variables not in the bindings are existential but must be consistent within the atom
    let mut local: BTreeMap<String, i64> = BTreeMap::new();
    for (t, v) in a.args.iter().zip(concl_args) {
        match t {
            Const(c) => {
                if c != v {
                    return false;
                }
            }
            Wild => {}
            Var(x) => {
                let name = var_name(*x);
                if let Some(b) = bind.get(&name) {
                    if b != v {
                        return false;
                    }
                } else if let Some(b) = local.get(&name) {
                    if b != v {
                        return false;
                    }
                } else {
                    local.insert(name, *v);
                }
            }
        }
    }
    true
}

fn term_value(t: &Term, bind: &BTreeMap<String, i64>) -> Option<i64> {
    match t {
        Const(c) => Some(*c),
        Var(x) => bind.get(&var_name(*x)).copied(),
        Wild => None,
    }
}
fn cmp_holds(o: CmpOp, a: i64, b: i64) -> bool {
    match o {
        CmpOp::Eq => a == b,
        CmpOp::Ne => a != b,
        CmpOp::Lt => a < b,
        CmpOp::Le => a <= b,
        CmpOp::Gt => a > b,
        CmpOp::Ge => a >= b,
    }
}

/// Independent proof checker. Returns Err(reason) for the first invalid node.
fn check_node(ctx: &Ctx, tree: &ProofTree, id: &str, depth: usize) -> Result<(), (String, String)> {
    if depth > 200 {
        return Err(("cyclic_or_too_deep".into(), "proof DAG deeper than 200".into()));
    }
    let node: &ProofNode = tree.nodes.get(id).ok_or_else(|| ("dangling_child".to_string(), format!("node {id} does not exist")))?;
    let args: Vec<i64> = node.conclusion.args.iter().map(|v| vi(v).ok_or(())).collect::<Result<_, _>>().map_err(|_| ("non_integer_conclusion".to_string(), format!("{:?}", node.conclusion.args)))?;
    let pred = node.conclusion.pred.as_str();
    match &node.kind {
        NodeKind::Fact => {
            let in_edb = ctx.edb.get(pred).is_some_and(|r| r.contains(&args));
            let in_model = ctx.model.get(pred).is_some_and(|r| r.contains(&args));
            let derived_src = format!("{:?}", node.source).to_lowercase().contains("derived");
            if !(in_edb || (derived_src && in_model)) {
                return Err(("fact_leaf_not_a_stored_fact".into(), format!("leaf {pred}{args:?} (source {:?}) is not a stored fact", node.source)));
            }
            Ok(())
        }
        NodeKind::Negation => Ok(()), // judged at the parent rule node, where the negated atom and the bindings are known
        NodeKind::Rule => {
            let rid = node.rule_id.clone().unwrap_or_default();
            let clause = ctx.prog.clauses.iter().find(|c| c.rel == pred && norm(&fmt_clause(c)) == norm(&rid)).ok_or_else(|| ("rule_id_is_not_a_clause".to_string(), format!("node {pred}{args:?}: rule_id `{rid}` is not a clause of {pred}")))?;
            let bind: BTreeMap<String, i64> = node.bindings.clone().unwrap_or_default().iter().filter_map(|(k, v)| vi(v).map(|x| (k.clone(), x))).collect();
            // head under bindings = conclusion
            if clause.head.len() != args.len() {
                return Err(("head_arity".into(), format!("clause `{rid}` vs conclusion {args:?}")));
            }
            for (h, v) in clause.head.iter().zip(&args) {
                let HeadArg::T(t) = h else { continue };
                match term_value(t, &bind) {
                    Some(x) if x == *v => {}
                    other => return Err(("head_under_bindings_differs_from_conclusion".into(), format!("clause `{rid}` bindings {bind:?}: head term {} = {other:?} but conclusion has {v}", fmt_term(t)))),
                }
            }
            // positive atoms one-to-one with fact/rule children; negated atoms with negation children
            let mut unused: Vec<&String> = node.children.iter().collect();
            for l in &clause.body {
                match l {
                    Lit::Pos(a) | Lit::Neg(a) => {
                        let want_neg = matches!(l, Lit::Neg(_));
                        if want_neg {
                            // the negated atom under the bindings must have no matching fact in the reference model
                            let hit = ctx.model.get(&a.rel).is_some_and(|r| r.iter().any(|row| matches_atom(a, &bind, row)));
                            if hit {
                                return Err(("negation_leaf_has_matching_fact".into(), format!("clause `{rid}` bindings {bind:?}: {} is claimed but {} has a matching fact", fmt_lit(l), a.rel)));
                            }
                        }
                        // a negation leaf names the pattern: its conclusion lists the bound (non-wildcard) arguments only
                        let bound_proj: Vec<i64> = a.args.iter().filter_map(|t| term_value(t, &bind)).collect();
                        let pos = unused.iter().position(|cid| {
                            tree.nodes.get(cid.as_str()).is_some_and(|ch| {
                                let is_neg = ch.kind == NodeKind::Negation;
                                let cargs: Option<Vec<i64>> = ch.conclusion.args.iter().map(vi).collect();
                                is_neg == want_neg && ch.conclusion.pred == a.rel && cargs.is_some_and(|ca| if want_neg { ca == bound_proj || matches_atom(a, &bind, &ca) } else { matches_atom(a, &bind, &ca) })
                            })
                        });
                        match pos {
                            Some(p) => {
                                unused.remove(p);
                            }
                            None => {
                                return Err((
                                    if want_neg { "negated_body_atom_without_negation_child".into() } else { "body_atom_without_matching_child".into() },
                                    format!("clause `{rid}` bindings {bind:?}: body literal {} has no matching child among {:?}", fmt_lit(l), node.children.iter().filter_map(|c| tree.nodes.get(c)).map(|c| format!("{:?}:{}{:?}", c.kind, c.conclusion.pred, c.conclusion.args)).collect::<Vec<_>>()),
                                ))
                            }
                        }
                    }
                    Lit::Cmp(x, o, y) => match (term_value(x, &bind), term_value(y, &bind)) {
                        (Some(a), Some(b)) if cmp_holds(*o, a, b) => {}
                        other => return Err(("comparison_does_not_hold".into(), format!("clause `{rid}` bindings {bind:?}: {} evaluates to {other:?}", fmt_lit(l)))),
                    },
                    Lit::Assign(..) => {}
                }
            }
            if !unused.is_empty() {
                return Err(("children_that_are_not_body_atoms".into(), format!("clause `{rid}`: extra children {unused:?}")));
            }
            for c in &node.children {
                check_node(ctx, tree, c, depth + 1)?;
            }
            Ok(())
        }
        NodeKind::Truncated => Err(("truncated".into(), format!("truncated node for {pred}{args:?}"))),
        other => Err(("unexpected_node_kind".into(), format!("{other:?} in a .why tree"))),
    }
}

fn relation_feature(p: &Program, rel: &str) -> &'static str {
    let cls: Vec<&Clause> = p.clauses.iter().filter(|c| c.rel == rel).collect();
    let rec = cls.iter().any(|c| c.body.iter().any(|l| matches!(l, Lit::Pos(a) if a.rel == rel)));
    let neg = cls.iter().any(|c| c.body.iter().any(|l| matches!(l, Lit::Neg(_))));
    let idb_dep = cls.iter().any(|c| c.body.iter().any(|l| matches!(l, Lit::Pos(a) | Lit::Neg(a) if a.rel != rel && p.clauses.iter().any(|d| d.rel == a.rel))));
    match (rec, neg, idb_dep) {
        (true, _, _) => "recursive",
        (false, true, _) => "negation",
        (false, false, true) => "over_derived_relation",
        _ => "over_base_relations",
    }
}

// ---- why-not -----------------------------------------------------------------------------------

/// all valuations of the first `upto` body literals' positive atoms that are consistent with `bind`
fn prefix_satisfiable(c: &Clause, upto: usize, bind: &BTreeMap<String, i64>, model: &Db) -> bool {
    fn rec(atoms: &[&Atom], i: usize, bind: &mut BTreeMap<String, i64>, model: &Db) -> bool {
        if i == atoms.len() {
            return true;
        }
        let a = atoms[i];
        let Some(rel) = model.get(&a.rel) else { return false };
        for row in rel {
            if row.len() != a.args.len() {
                continue;
            }
            let mut added = vec![];
            let mut ok = true;
            for (t, v) in a.args.iter().zip(row) {
                match t {
                    Const(c) => ok &= c == v,
                    Wild => {}
                    Var(x) => {
                        let n = var_name(*x);
                        match bind.get(&n) {
                            Some(b) => ok &= b == v,
                            None => {
                                bind.insert(n.clone(), *v);
                                added.push(n);
                            }
                        }
                    }
                }
                if !ok {
                    break;
                }
            }
            if ok && rec(atoms, i + 1, bind, model) {
                for n in added {
                    bind.remove(&n);
                }
                return true;
            }
            for n in added {
                bind.remove(&n);
            }
        }
        false
    }
    let atoms: Vec<&Atom> = c.body.iter().take(upto).filter_map(|l| if let Lit::Pos(a) = l { Some(a) } else { None }).collect();
    rec(&atoms, 0, &mut bind.clone(), model)
}

fn head_bindings(c: &Clause, t: &[i64]) -> Option<BTreeMap<String, i64>> {
    let mut b = BTreeMap::new();
    if c.head.len() != t.len() {
        return None;
    }
    for (h, v) in c.head.iter().zip(t) {
        let HeadArg::T(term) = h else { return None };
        match term {
            Const(k) => {
                if k != v {
                    return None;
                }
            }
            Var(x) => {
                let n = var_name(*x);
                if let Some(prev) = b.insert(n, *v) {
                    if prev != *v {
                        return None;
                    }
                }
            }
            Wild => {}
        }
    }
    Some(b)
}

/// The literal claim of a BodyAtomFailed blocker: the named pattern is an instance of body literal `idx` that arises
/// from the head bindings plus real matches of the earlier positive atoms, and no fact of the model matches it.
fn body_atom_blocker_holds(c: &Clause, idx: usize, text: &str, hb: &BTreeMap<String, i64>, model: &Db) -> bool {
    let Some(Lit::Pos(atom)) = c.body.get(idx) else { return false };
    let t = text.trim();
    let (Some(open), Some(close)) = (t.find('('), t.rfind(')')) else { return false };
    if t[..open].trim() != atom.rel {
        return false;
    }
    let pat: Vec<Result<i64, String>> = t[open + 1..close].split(',').map(|a| a.trim().parse::<i64>().map_err(|_| a.trim().to_string())).collect();
    if pat.len() != atom.args.len() {
        return false;
    }
    // instance of the atom, consistent with the head bindings
    let mut bind = hb.clone();
    for (term, pv) in atom.args.iter().zip(&pat) {
        match (term, pv) {
            (Const(k), Ok(v)) => {
                if k != v {
                    return false;
                }
            }
            (Const(_), Err(_)) => return false,
            (Var(x), Ok(v)) => {
                let n = var_name(*x);
                match bind.get(&n) {
                    Some(b) if b != v => return false,
                    Some(_) => {}
                    None => {
                        bind.insert(n, *v);
                    }
                }
            }
            (Var(x), Err(_)) => {
                if hb.contains_key(&var_name(*x)) {
                    return false; // a head-bound variable must appear with its value
                }
            }
            (Wild, _) => {}
        }
    }
    // the concrete values of the pattern come from real matches of the earlier positive atoms
    if !prefix_satisfiable(c, idx, &bind, model) {
        return false;
    }
    // no fact matches the pattern (repeated variable names must agree)
    let Some(rows) = model.get(&atom.rel) else { return true };
    !rows.iter().any(|row| {
        if row.len() != pat.len() {
            return false;
        }
        let mut seen: BTreeMap<&str, i64> = BTreeMap::new();
        pat.iter().zip(row).all(|(pv, v)| match pv {
            Ok(k) => k == v,
            Err(name) => match seen.get(name.as_str()) {
                Some(prev) => prev == v,
                None => {
                    seen.insert(name.as_str(), *v);
                    true
                }
            },
        })
    })
}

/// Judge one .why_not answer. Returns violations.
fn check_why_not(ctx: &Ctx, rel: &str, t: &[i64], tree: &ProofTree, text: &[String]) -> Vec<(String, String)> {
    let derived = ctx.model.get(rel).is_some_and(|r| r.contains(&t.to_vec()));
    let claims_not_derived = text.iter().any(|l| l.contains("was NOT derived"));
    let feat = relation_feature(ctx.prog, rel);
    let mut out = vec![];
    if derived {
        // the property's letter: for a derived tuple the answer never claims that EVERY clause is blocked
        if claims_not_derived {
            let root = tree.roots.first().and_then(|r| tree.nodes.get(r));
            let clause_nodes: Vec<&ProofNode> = root.map(|r| r.children.iter().filter_map(|c| tree.nodes.get(c)).collect()).unwrap_or_default();
            let blocked = |n: &ProofNode| n.why_not.is_some() || n.children.iter().filter_map(|x| tree.nodes.get(x)).any(|ch| ch.why_not.is_some());
            if clause_nodes.iter().all(|n| blocked(n)) {
                out.push((format!("derived_tuple_every_clause_blocked:{feat}"), format!("{rel}{t:?} IS derivable, yet .why_not reports every clause blocked: {:?}", text.iter().take(8).collect::<Vec<_>>())));
            }
        }
        return out;
    }
    // not derived: every clause of the relation must be reported with a blocker that genuinely holds
    let clauses: Vec<&Clause> = ctx.prog.clauses.iter().filter(|c| c.rel == rel).collect();
    let Some(root) = tree.roots.first().and_then(|r| tree.nodes.get(r)) else {
        out.push(("why_not_without_tree".into(), format!(".why_not {rel}{t:?}: no proof tree returned; text {text:?}")));
        return out;
    };
    let per_clause: Vec<&ProofNode> = root.children.iter().filter_map(|c| tree.nodes.get(c)).collect();
    for c in &clauses {
        let ctext = norm(&fmt_clause(c));
        let Some(cn) = per_clause.iter().find(|n| n.rule_id.as_deref().map(norm) == Some(ctext.clone())) else {
            out.push((format!("clause_without_reported_blocker:{feat}"), format!(".why_not {rel}{t:?}: clause `{}` is not explained; text {text:?}", fmt_clause(c))));
            continue;
        };
        let hb = head_bindings(c, t);
        // blockers are the why_not infos of this clause node's children (or of the node itself)
        let mut blockers: Vec<&Blocker> = vec![];
        if let Some(w) = &cn.why_not {
            blockers.push(&w.blocker);
        }
        for ch in cn.children.iter().filter_map(|x| tree.nodes.get(x)) {
            if let Some(w) = &ch.why_not {
                blockers.push(&w.blocker);
            }
        }
        if blockers.is_empty() {
            out.push((format!("clause_without_reported_blocker:{feat}"), format!(".why_not {rel}{t:?}: clause `{}` has no blocker", fmt_clause(c))));
            continue;
        }
        for b in blockers {
            let genuine = match b {
                Blocker::HeadUnificationFailed { .. } => hb.is_none(),
                Blocker::BodyAtomFailed { predicate_index, predicate_text, .. } => match &hb {
                    None => false,
                    Some(hb) => {
                        body_atom_blocker_holds(c, *predicate_index, predicate_text, hb, &ctx.model)
                    }
                },
                Blocker::ComparisonFailed { .. } => match &hb {
                    None => false,
                    // genuine iff no valuation of the positive atoms satisfies every comparison
                    Some(hb) => !body_satisfiable_with_comparisons(c, hb, &ctx.model),
                },
                Blocker::NegationSucceeded { relation, matching_tuple } => {
                    let mt: Option<Vec<i64>> = matching_tuple.iter().map(vi).collect();
                    mt.is_some_and(|mt| ctx.model.get(relation).is_some_and(|r| r.contains(&mt)))
                }
                Blocker::HnswNotInTopK { .. } => true,
            };
            if !genuine {
                let kind = match b {
                    Blocker::HeadUnificationFailed { .. } => "head_unification_failed",
                    Blocker::BodyAtomFailed { .. } => "body_atom_failed",
                    Blocker::ComparisonFailed { .. } => "comparison_failed",
                    Blocker::NegationSucceeded { .. } => "negation_succeeded",
                    Blocker::HnswNotInTopK { .. } => "hnsw",
                };
                out.push((format!("blocker_does_not_hold:{kind}:{feat}"), format!(".why_not {rel}{t:?}: clause `{}` is reported blocked by {b:?}, which is false in the model", fmt_clause(c))));
            }
        }
    }
    out
}

fn body_satisfiable_with_comparisons(c: &Clause, hb: &BTreeMap<String, i64>, model: &Db) -> bool {
    // enumerate valuations of positive atoms (brute force via body_valuations of the clause restricted by head bindings)
    let Ok(vals) = body_valuations(&Clause { rel: c.rel.clone(), head: c.head.clone(), body: c.body.iter().filter(|l| !matches!(l, Lit::Neg(_))).cloned().collect() }, model) else { return false };
    vals.iter().any(|v| hb.iter().all(|(name, x)| (0..v.len()).all(|i| var_name(i as u8) != *name || v[i] == Some(*x))))
}

// ---- driver ------------------------------------------------------------------------------------

pub fn run(args: &Args) -> i32 {
    quiet_panics();
    let prop = args.prop.clone();
    if args.replay.is_some() {
        eprintln!("{prop}: replay files carry the program, the EDB and the offending tuple in `detail`; re-run ./check {prop}");
    }
    let run = Run::new(args, "exploration", 55.0, 1500.0);
    let progs = prov_programs(run.quick());
    let b = Bounds { quick: true };
    let budget = if run.quick() { 8 } else { 40 };
    run.put("programs", json!(progs.len()));
    run.set_rule(match prop.as_str() {
        "C21" => "programs of families F1 (conjunctive clauses with constants, wildcards, repeated variables), F2 (union heads), F3 (stratified negation), F4 (recursion, recursion + negation), F8 (repeated sub-plans) registered as persistent rules x small EDBs; `.why ?rel(..)` through the Handler for every derived relation; EVERY returned proof tree is checked by an independent proof checker: root concludes an answer tuple; every rule node's rule_id is a clause of the program, its head under the bindings is the conclusion, its positive body atoms are matched one-to-one by children's conclusions, negated atoms by negation leaves whose instance has no matching fact in the reference model, comparisons hold, fact leaves are stored facts. Truncated roots are C22's business. non-trivial = distinct (program, EDB, relation) with at least one answer",
        "C22" => "same runs as C21: for every tuple that `?rel(..)` returns, `.why` must return a tree whose root concludes that tuple, that contains no truncated node (all reference derivations here are far below the depth limit of 50) and that passes the C21 checker. Wide leg: four programs (left/right recursion, two-hop join, two-hop join with negation) over a hub with max_proofs_per_tuple + 2 spokes, one target each, queried with the target free and bound (`?r(1, t)`, `?r(X, t)`): every answer needs a complete proof that is a rule application, not a bare fact leaf. non-trivial = distinct (program, EDB, relation) with at least one answer",
        _ => "programs of F1, F2, F3, F4, F8 as persistent rules x small EDBs x EVERY candidate tuple over the value domain for every derived relation: `.why_not rel(t)`; if t is not in the reference model every clause of rel must be reported with a blocker that genuinely holds (head does not unify / the named pattern is an instance of the named body atom under the head bindings and real matches of the earlier atoms, and no fact of the model matches it / no valuation satisfies the comparisons / the negated atom's reported matching tuple is in the model); if t IS in the model the answer must not report every clause of rel as blocked. non-trivial = distinct (program, EDB, relation, tuple)",
    });
    run.assume("reference model R1; mutual-recursion programs are excluded (their answers are C01's known finding)");
    let dom: Vec<i64> = vec![1, 2, 3];
    run.par_for(progs.len(), threads(), |pi, l| {
        let p = &progs[pi].prog;
        let idbs: BTreeSet<String> = p.heads();
        // a clause that repeats a variable inside an atom needs a relation with two tuples (one that matches
        // loosely and one that matches exactly) before a unification slip can show
        let repeats = p.clauses.iter().any(|c| c.body.iter().any(|l| matches!(l, Lit::Pos(a) | Lit::Neg(a) if a.args.iter().enumerate().any(|(i, t)| matches!(t, Var(_)) && a.args[..i].contains(t)))));
        let budget = if repeats { if prop == "C23" { 48 } else { 200 } } else { budget };
        for edb in edbs_for(p, &b, budget) {
            let Ok(model) = eval_int_model(p, &edb) else { continue };
            let r = catch_unwind(AssertUnwindSafe(|| -> Result<(), String> {
                let env = setup(p, &edb)?;
                let ctx = Ctx { prog: p, edb: &edb, model: model.clone() };
                for rel in &idbs {
                    let arity = p.clauses.iter().find(|c| &c.rel == rel).map(|c| c.head.len()).unwrap_or(0);
                    let vars: Vec<String> = (0..arity).map(|i| format!("Q{i}")).collect();
                    let feat = relation_feature(p, rel);
                    let case = |extra: serde_json::Value| json!({"program": p.text(), "edb": fmt_db(&edb), "relation": rel, "extra": extra});
                    if prop == "C21" || prop == "C22" {
                        l.eval();
                        let want: BTreeSet<Vec<i64>> = model.get(rel).cloned().unwrap_or_default();
                        if !want.is_empty() {
                            l.nontrivial(fnv(format!("{}|{}|{rel}", p.text(), fmt_db(&edb)).as_bytes()));
                        }
                        let res = env.query_program(Some("A"), &format!(".why ?{rel}({})", vars.join(", ")));
                        let Ok(q) = res else {
                            if !want.is_empty() {
                                run.violation(&format!("why_request_failed:{feat}"), case(json!(null)), format!("program [{}] EDB {}: .why ?{rel} failed: {:?}", p.text().replace('\n', " ; "), fmt_db(&edb), res.err()));
                            }
                            continue;
                        };
                        let trees = q.proof_trees.clone().unwrap_or_default();
                        l.outcome(trees.len() as u64);
                        let mut explained: BTreeSet<Vec<i64>> = BTreeSet::new();
                        for tree in &trees {
                            let Some(root) = tree.roots.first().and_then(|r| tree.nodes.get(r)) else { continue };
                            let rargs: Vec<i64> = root.conclusion.args.iter().filter_map(vi).collect();
                            let truncated = tree.has_truncated();
                            if prop == "C21" {
                                if truncated {
                                    continue;
                                }
                                if root.conclusion.pred != *rel || !want.contains(&rargs) {
                                    run.violation(&format!("root_does_not_conclude_an_answer:{feat}"), case(json!(rargs)), format!("program [{}] EDB {}: a .why ?{rel} tree concludes {}{rargs:?}, which is not an answer ({want:?})", p.text().replace('\n', " ; "), fmt_db(&edb), root.conclusion.pred));
                                    continue;
                                }
                                if let Err((c, d)) = check_node(&ctx, tree, &tree.roots[0], 0) {
                                    run.violation(&format!("{c}:{feat}"), case(json!(rargs)), format!("program [{}] EDB {}: proof of {rel}{rargs:?}: {d}", p.text().replace('\n', " ; "), fmt_db(&edb)));
                                }
                            } else if !truncated && root.conclusion.pred == *rel && check_node(&ctx, tree, &tree.roots[0], 0).is_ok() {
                                explained.insert(rargs);
                            }
                        }
                        if prop == "C22" {
                            // the answers the engine itself returns for ?rel
                            let answers: BTreeSet<Vec<i64>> = q.rows.iter().map(|r| r.values.iter().filter_map(|v| match v { inputlayer::protocol::wire::WireValue::Int64(i) => Some(*i), inputlayer::protocol::wire::WireValue::Int32(i) => Some(*i as i64), _ => None }).collect()).collect();
                            for a in &answers {
                                if !explained.contains(a) {
                                    run.violation(&format!("answer_without_complete_proof:{feat}"), case(json!(a)), format!("program [{}] EDB {}: ?{rel} returns {a:?} but .why gives no complete, valid proof of it ({} trees, explained {explained:?})", p.text().replace('\n', " ; "), fmt_db(&edb), trees.len()));
                                    break;
                                }
                            }
                        }
                    } else {
                        for t in universe(&dom, arity) {
                            l.eval();
                            l.nontrivial(fnv(format!("{}|{}|{rel}{t:?}", p.text(), fmt_db(&edb)).as_bytes()));
                            let txt = format!(".why_not {rel}({})", t.iter().map(|x| x.to_string()).collect::<Vec<_>>().join(", "));
                            let res = env.query_program(Some("A"), &txt);
                            let Ok(q) = res else {
                                run.violation(&format!("why_not_request_failed:{feat}"), case(json!(t)), format!("program [{}] EDB {}: {txt} failed: {:?}", p.text().replace('\n', " ; "), fmt_db(&edb), res.err()));
                                continue;
                            };
                            let text: Vec<String> = q.rows.iter().filter_map(|r| match r.values.first() { Some(inputlayer::protocol::wire::WireValue::String(s)) => Some(s.clone()), _ => None }).collect();
                            let empty = ProofTree::new();
                            let tree = q.proof_trees.as_ref().and_then(|v| v.first()).unwrap_or(&empty);
                            l.outcome(text.len() as u64);
                            for (c, d) in check_why_not(&ctx, rel, &t, tree, &text) {
                                run.violation(&c, case(json!(t)), format!("program [{}] EDB {}: {d}", p.text().replace('\n', " ; "), fmt_db(&edb)));
                            }
                        }
                    }
                }
                if run.want_sample() && pi % 61 == 1 {
                    run.sample(json!({"program": p.text(), "edb": fmt_db(&edb), "derived_relations": idbs}));
                }
                Ok(())
            }));
            match r {
                Ok(Ok(())) => {}
                Ok(Err(e)) => {
                    l.count("program_not_registrable_not_a_case", 1);
                    let _ = e;
                }
                Err(pn) => run.violation("panic", json!({"program": p.text(), "edb": fmt_db(&edb)}), crate::e1::panic_msg(&pn)),
            }
        }
    });
    if prop != "C23" {
        wide_leg(&run, &prop);
    }
    if run.quick() {
        run.put("exhaustive", json!(false));
        run.put("exhaustive_note", json!("quick tier: every third program of the large families (all programs that repeat a variable inside an atom, all of F3 and F4neg); the thorough tier takes every program"));
    }
    run.finish()
}

/// C21/C22, wide leg: one input per limit visible in the prover. Backward chaining keeps at most
/// `max_proofs_per_tuple` alternatives per tuple; a hub with more out-edges than that, each leading to its own
/// target, makes every target's only derivation pass through a match beyond the limit if alternatives are ever
/// cut early. Queries bind the target (the magic-sets path) and leave it free.
fn wide_leg(run: &Run, prop: &str) {
    let k = inputlayer::provenance::ProofConfig::default().max_proofs_per_tuple as i64 + 2;
    let cl = |rel: &str, head: Vec<Term>, body: Vec<Lit>| Clause { rel: rel.into(), head: head.into_iter().map(HeadArg::T).collect(), body };
    let at = |rel: &str, args: Vec<Term>| Lit::Pos(Atom { rel: rel.into(), args });
    let progs: Vec<Program> = vec![
        Program { clauses: vec![cl("r", vec![Var(0), Var(1)], vec![at("e", vec![Var(0), Var(1)])]), cl("r", vec![Var(0), Var(2)], vec![at("r", vec![Var(0), Var(1)]), at("e", vec![Var(1), Var(2)])])] },
        Program { clauses: vec![cl("r", vec![Var(0), Var(1)], vec![at("e", vec![Var(0), Var(1)])]), cl("r", vec![Var(0), Var(2)], vec![at("e", vec![Var(0), Var(1)]), at("r", vec![Var(1), Var(2)])])] },
        Program { clauses: vec![cl("h", vec![Var(0), Var(2)], vec![at("e", vec![Var(0), Var(1)]), at("e", vec![Var(1), Var(2)])])] },
        Program { clauses: vec![cl("h", vec![Var(0), Var(2)], vec![at("e", vec![Var(0), Var(1)]), at("e", vec![Var(1), Var(2)]), Lit::Neg(Atom { rel: "n".into(), args: vec![Var(2)] })])] },
    ];
    // hub 1 -> spokes 2..k+1 -> targets 101..100+k ; n marks one target
    let mut edb = Db::new();
    let mut e = BTreeSet::new();
    for i in 0..k {
        e.insert(vec![1, 2 + i]);
        e.insert(vec![2 + i, 101 + i]);
    }
    edb.insert("e".into(), e);
    edb.insert("n".into(), [vec![101]].into_iter().collect());
    let mut cases = 0u64;
    for p in &progs {
        let Ok(model) = eval_int_model(p, &edb) else { continue };
        let Ok(env) = setup(p, &edb) else { continue };
        let ctx = Ctx { prog: p, edb: &edb, model: model.clone() };
        let rel = p.clauses[0].rel.clone();
        let want: BTreeSet<Vec<i64>> = model.get(&rel).cloned().unwrap_or_default();
        let mut queries: Vec<(String, BTreeSet<Vec<i64>>)> = vec![(format!(".why ?{rel}(Q0, Q1)"), want.clone())];
        for t in want.iter().filter(|t| t[0] == 1 && t[1] > 100) {
            queries.push((format!(".why ?{rel}(1, {})", t[1]), [t.clone()].into_iter().collect()));
            queries.push((format!(".why ?{rel}(Q0, {})", t[1]), want.iter().filter(|w| w[1] == t[1]).cloned().collect()));
        }
        for (q, expect) in queries {
            cases += 1;
            run.evaluations.fetch_add(1, std::sync::atomic::Ordering::Relaxed);
            let case = json!({"leg": "wide", "program": p.text(), "edb": fmt_db(&edb), "query": q});
            let res = env.query_program(Some("A"), &q);
            let Ok(qr) = res else {
                run.violation("wide:why_request_failed", case, format!("program [{}] hub EDB (hub 1, {k} spokes, one target each): {q} failed: {:?}", p.text().replace('\n', " ; "), res.err()));
                // a failing request usually means the prover ran into the query timeout (30 s): one per program is enough
                break;
            };
            let trees = qr.proof_trees.clone().unwrap_or_default();
            let mut explained: BTreeSet<Vec<i64>> = BTreeSet::new();
            for tree in &trees {
                let Some(root) = tree.roots.first().and_then(|r| tree.nodes.get(r)) else { continue };
                let rargs: Vec<i64> = root.conclusion.args.iter().filter_map(vi).collect();
                if tree.has_truncated() {
                    continue;
                }
                match check_node(&ctx, tree, &tree.roots[0], 0) {
                    Ok(()) => {
                        // a bare fact leaf for a derived tuple is not a derivation
                        if root.children.is_empty() && root.rule_id.is_none() {
                            continue;
                        }
                        explained.insert(rargs);
                    }
                    Err((c, d)) => {
                        if prop == "C21" {
                            run.violation(&format!("wide:{c}"), case.clone(), format!("program [{}] hub EDB ({k} spokes): {q}: proof of {rel}{rargs:?}: {d}", p.text().replace('\n', " ; ")));
                        }
                    }
                }
            }
            if prop == "C22" {
                if let Some(missing) = expect.iter().find(|t| !explained.contains(*t)) {
                    run.violation("wide:answer_without_complete_proof", case, format!("program [{}] hub EDB (hub 1, {k} spokes, one target each): {q} must explain {} answers; {rel}{missing:?} has no complete valid proof among {} trees", p.text().replace('\n', " ; "), expect.len(), trees.len()));
                }
            }
        }
    }
    run.put("wide_leg_queries", json!(cases));
}
