//! C10 — session state is isolated.
//!
//! E2 leg: every interleaving, at request granularity, of two WebSocket-style sessions, one persistent writer and
//! one session-less client (whose request carries request-local facts) on one shared KG, driven through the real
//! `Handler::execute_program`. After every history each observer's answers are compared with the reference
//! evaluator R1 run on (persistent facts + that observer's own facts, persistent rules + its own rules); the
//! persistent facts and rules must be what the writer alone made them.
//! E4 leg (`interleavings`): the same participants as real threads under the E4 scheduler.
use crate::common::*;
use crate::e2_handler::{messages, Env};
use crate::r1::*;
use inputlayer::protocol::wire::{QueryResult, WireValue};
use inputlayer::{Tuple, Value};
use serde_json::json;
use std::collections::{BTreeMap, BTreeSet};
use std::panic::{catch_unwind, AssertUnwindSafe};

#[derive(Clone, Copy, Debug, PartialEq, Eq, Hash, PartialOrd, Ord)]
pub enum Op {
    /// session i adds the ephemeral fact e(a, b)
    Fact(usize, i64, i64),
    /// session i retracts the ephemeral fact e(a, b)
    Retract(usize, i64, i64),
    /// session i adds session rule number k
    Rule(usize, usize),
    /// session i: `.session clear`
    Clear(usize),
    /// session i adds the ephemeral facts [e(1,2), e(1,2)] in ONE insert call (an in-batch duplicate)
    FactBatch(usize),
    /// writer: +e(a, b)
    WIns(i64, i64),
    /// writer: -e(a, b)
    WDel(i64, i64),
    /// writer registers persistent rule number k
    WRule(usize),
    /// a session-less request: "e(a, b)\n?p(X, Y)" — the fact is local to that one request
    Local(i64, i64),
}

impl Op {
    pub fn text(&self) -> String {
        match self {
            Op::Fact(i, a, b) => format!("S{i}: e({a}, {b})"),
            Op::Retract(i, a, b) => format!("S{i}: retract e({a}, {b})"),
            Op::Rule(i, k) => format!("S{i}: {}", SESSION_RULES[*k].0),
            Op::Clear(i) => format!("S{i}: .session clear"),
            Op::FactBatch(i) => format!("S{i}: insert [e(1, 2), e(1, 2)]"),
            Op::WIns(a, b) => format!("W: +e({a}, {b})"),
            Op::WDel(a, b) => format!("W: -e({a}, {b})"),
            Op::WRule(k) => format!("W: +{}", PERSISTENT_RULES[*k].0),
            Op::Local(a, b) => format!("N: e({a}, {b}) ; ?p(X, Y)"),
        }
    }
    fn session(&self) -> Option<usize> {
        match self {
            Op::Fact(i, ..) | Op::Retract(i, ..) | Op::Rule(i, _) | Op::Clear(i) | Op::FactBatch(i) => Some(*i),
            _ => None,
        }
    }
}

fn cl(rel: &str, head: Vec<HeadArg>, body: Vec<Lit>) -> Clause {
    Clause { rel: rel.into(), head, body }
}
fn at(rel: &str, args: &[Term]) -> Atom {
    Atom { rel: rel.into(), args: args.to_vec() }
}

/// (text, reference clause)
pub static PERSISTENT_RULES: std::sync::LazyLock<Vec<(String, Clause)>> = std::sync::LazyLock::new(|| {
    vec![
        ("p(X, Y) <- e(X, Y)".into(), cl("p", vec![HeadArg::T(Var(0)), HeadArg::T(Var(1))], vec![Lit::Pos(at("e", &[Var(0), Var(1)]))])),
        ("c(X, count<Y>) <- e(X, Y)".into(), cl("c", vec![HeadArg::T(Var(0)), HeadArg::A(Agg::Count, 1)], vec![Lit::Pos(at("e", &[Var(0), Var(1)]))])),
    ]
});
pub static SESSION_RULES: std::sync::LazyLock<Vec<(String, Clause)>> = std::sync::LazyLock::new(|| {
    vec![
        ("p(Y, X) <- e(X, Y)".into(), cl("p", vec![HeadArg::T(Var(1)), HeadArg::T(Var(0))], vec![Lit::Pos(at("e", &[Var(0), Var(1)]))])),
        ("s(X) <- e(X, _), !e(_, X)".into(), cl("s", vec![HeadArg::T(Var(0))], vec![Lit::Pos(at("e", &[Var(0), Wild])), Lit::Neg(at("e", &[Wild, Var(0)]))])),
    ]
});

#[derive(Clone, Default, Debug)]
pub struct Model {
    pub facts: BTreeSet<(i64, i64)>,
    pub rules: BTreeSet<usize>,
    pub sess_facts: [BTreeSet<(i64, i64)>; 2],
    pub sess_rules: [Vec<usize>; 2],
}

impl Model {
    pub fn apply(&mut self, op: &Op) {
        match *op {
            Op::Fact(i, a, b) => {
                self.sess_facts[i].insert((a, b));
            }
            Op::FactBatch(i) => {
                self.sess_facts[i].insert((1, 2));
            }
            Op::Retract(i, a, b) => {
                self.sess_facts[i].remove(&(a, b));
            }
            Op::Rule(i, k) => self.sess_rules[i].push(k),
            Op::Clear(i) => {
                self.sess_facts[i].clear();
                self.sess_rules[i].clear();
            }
            Op::WIns(a, b) => {
                self.facts.insert((a, b));
            }
            Op::WDel(a, b) => {
                self.facts.remove(&(a, b));
            }
            Op::WRule(k) => {
                self.rules.insert(k);
            }
            Op::Local(..) => {}
        }
    }
    /// what observer `who` (Some(i) = session i, None = session-less) must see, optionally with extra local facts
    pub fn expected(&self, who: Option<usize>, local: &[(i64, i64)], merge_all_sessions: bool, ignore_own: bool) -> Db {
        let mut facts: BTreeSet<(i64, i64)> = self.facts.clone();
        let mut clauses: Vec<Clause> = self.rules.iter().map(|k| PERSISTENT_RULES[*k].1.clone()).collect();
        let own: Vec<usize> = if merge_all_sessions { vec![0, 1] } else { who.into_iter().collect() };
        if !ignore_own {
            for i in own {
                facts.extend(self.sess_facts[i].iter().cloned());
                let mut seen = BTreeSet::new();
                for k in &self.sess_rules[i] {
                    if seen.insert(*k) {
                        clauses.push(SESSION_RULES[*k].1.clone());
                    }
                }
            }
        }
        facts.extend(local.iter().cloned());
        let mut edb = Db::new();
        edb.insert("e".into(), facts.iter().map(|(a, b)| vec![*a, *b]).collect());
        let p = Program { clauses };
        eval_int_model(&p, &edb).unwrap_or(edb)
    }
}

pub fn int_rows(q: &QueryResult) -> BTreeSet<Vec<i64>> {
    q.rows
        .iter()
        .map(|r| {
            r.values
                .iter()
                .filter_map(|v| match v {
                    WireValue::Int64(i) => Some(*i),
                    WireValue::Int32(i) => Some(*i as i64),
                    _ => None,
                })
                .collect()
        })
        .collect()
}

pub const QUERIES: [(&str, &str); 4] = [("e", "?e(X, Y)"), ("p", "?p(X, Y)"), ("c", "?c(X, N)"), ("s", "?s(X)")];

pub struct Sut {
    pub env: Env,
    pub sids: [String; 2],
}

impl Sut {
    pub fn new(root: usize) -> Sut {
        let env = Env::new("c10");
        env.create_kg("A");
        if root == 1 {
            env.insert("A", "e", vec![Tuple::new(vec![Value::Int64(1), Value::Int64(2)])]);
            for k in 0..PERSISTENT_RULES.len() {
                let _ = env.run(None, Some("A"), &format!("+{}", PERSISTENT_RULES[k].0), None);
            }
        }
        let s0 = env.handler.create_session("A").expect("session");
        let s1 = env.handler.create_session("A").expect("session");
        Sut { env, sids: [s0, s1] }
    }
    /// run one request; for `Local` the request's own answer is returned
    pub fn apply(&self, op: &Op) -> Result<Option<BTreeSet<Vec<i64>>>, String> {
        let t = |a: i64, b: i64| vec![Tuple::new(vec![Value::Int64(a), Value::Int64(b)])];
        match *op {
            Op::Fact(i, a, b) => self.env.run(Some(&self.sids[i]), None, &format!("e({a}, {b})"), None).map(|_| None),
            Op::Retract(i, a, b) => self.env.handler.session_retract_ephemeral(&self.sids[i], "e", t(a, b)).map(|_| None),
            Op::Rule(i, k) => self.env.run(Some(&self.sids[i]), None, &SESSION_RULES[k].0, None).map(|_| None),
            Op::Clear(i) => self.env.run(Some(&self.sids[i]), None, ".session clear", None).map(|_| None),
            Op::FactBatch(i) => self.env.handler.session_insert_ephemeral(&self.sids[i], "e", [t(1, 2), t(1, 2)].concat()).map(|_| None),
            Op::WIns(a, b) => self.env.run(None, Some("A"), &format!("+e({a}, {b})"), None).map(|_| None),
            Op::WDel(a, b) => self.env.run(None, Some("A"), &format!("-e({a}, {b})"), None).map(|_| None),
            Op::WRule(k) => self.env.run(None, Some("A"), &format!("+{}", PERSISTENT_RULES[k].0), None).map(|_| None),
            Op::Local(a, b) => self.env.run(None, Some("A"), &format!("e({a}, {b})\n?p(X, Y)"), None).map(|q| Some(int_rows(&q))),
        }
    }
    pub fn observe(&self, who: Option<usize>, q: &str) -> Result<BTreeSet<Vec<i64>>, String> {
        let r = match who {
            Some(i) => self.env.run(Some(&self.sids[i]), None, q, None),
            None => self.env.run(None, Some("A"), q, None),
        };
        match r {
            Ok(q) => {
                let m = messages(&Ok(q.clone()));
                if q.schema.len() == 1 && q.schema[0].name == "message" && m.iter().any(|s| s.contains("rror") || s.contains("not found") || s.contains("nknown")) {
                    return Err(m.join(" | "));
                }
                Ok(int_rows(&q))
            }
            Err(e) => Err(e),
        }
    }
}

pub fn root_model(root: usize) -> Model {
    let mut m = Model::default();
    if root == 1 {
        m.facts.insert((1, 2));
        m.rules.insert(0);
        m.rules.insert(1);
    }
    m
}

pub struct FinalObs {
    pub answers: Vec<(Option<usize>, usize, Result<BTreeSet<Vec<i64>>, String>)>,
    pub facts: BTreeMap<String, BTreeSet<String>>,
    pub rules: BTreeSet<String>,
}

pub fn observe_final(sut: &Sut) -> FinalObs {
    let mut answers = vec![];
    for who in [Some(0), Some(1), None] {
        for (qi, (_, q)) in QUERIES.iter().enumerate() {
            answers.push((who, qi, sut.observe(who, q)));
        }
    }
    let st = sut.env.kg_state("A");
    FinalObs { answers, facts: st.facts, rules: st.rules.keys().cloned().collect() }
}

/// compare every observer's answers with the model; returns (class, detail) violations
pub fn compare(obs: &FinalObs, m: &Model) -> Vec<(String, String)> {
    let mut out = vec![];
    for (who, qi, got) in &obs.answers {
        let (rel, q) = QUERIES[*qi];
        let exp = m.expected(*who, &[], false, false);
        let want: BTreeSet<Vec<i64>> = exp.get(rel).cloned().unwrap_or_default();
        let name = who.map_or("N".to_string(), |i| format!("S{i}"));
        let kind = who.map_or("sessionless", |_| "session");
        let got = match got {
            Ok(g) => g,
            Err(e) => {
                if !want.is_empty() {
                    // unknown relation: an error is as good as an empty answer, but not when tuples are expected
                    out.push((format!("query_fails:{kind}:{rel}"), format!("{name} asks {q}: error {e}; expected {want:?}")));
                }
                continue;
            }
        };
        if *got != want {
            let all = m.expected(*who, &[], true, false).get(rel).cloned().unwrap_or_default();
            let none = m.expected(*who, &[], false, true).get(rel).cloned().unwrap_or_default();
            let diag = if *got == all && all != want {
                "sees_another_sessions_state"
            } else if *got == none && who.is_some() {
                "own_session_state_ignored"
            } else if rel == "c" {
                "aggregate_differs"
            } else {
                "other"
            };
            out.push((format!("answer_differs:{kind}:{rel}:{diag}"), format!("{name} asks {q}: got {got:?}, persistent data plus its own facts and rules give {want:?}")));
        }
    }
    // persistent state: only the writer changes it
    let pf: BTreeSet<String> = obs.facts.get("e").cloned().unwrap_or_default();
    let want_pf: BTreeSet<String> = m.facts.iter().map(|(a, b)| format!("{:?}", Tuple::new(vec![Value::Int64(*a), Value::Int64(*b)]))).collect();
    if pf != want_pf || obs.facts.keys().any(|k| k != "e") {
        out.push(("persistent_facts_changed".into(), format!("stored facts {:?}; the writer's requests alone give e={:?}", obs.facts, m.facts)));
    }
    let want_rules: BTreeSet<String> = m.rules.iter().map(|k| PERSISTENT_RULES[*k].1.rel.clone()).collect();
    if want_rules != obs.rules {
        out.push(("persistent_rules_changed".into(), format!("registered rules {:?}; the writer's requests alone give {want_rules:?}", obs.rules)));
    }
    out
}

pub fn judge(sut: &Sut, m: &Model) -> Vec<(String, String)> {
    compare(&observe_final(sut), m)
}

fn alphabet(reduced: bool) -> Vec<Op> {
    let mut v = vec![];
    for i in 0..2 {
        v.push(Op::Fact(i, 1, 2));
        if !reduced {
            v.push(Op::Fact(i, 2, 1));
        }
        v.push(Op::Retract(i, 1, 2));
        if !reduced {
            v.push(Op::FactBatch(i));
        }
        v.push(Op::Rule(i, 0));
        if !reduced {
            v.push(Op::Rule(i, 1));
        }
        v.push(Op::Clear(i));
    }
    v.push(Op::WIns(1, 2));
    v.push(Op::WDel(1, 2));
    if !reduced {
        v.push(Op::WIns(3, 3));
        v.push(Op::WRule(1));
    }
    v.push(Op::WRule(0));
    v.push(Op::Local(2, 1));
    v
}

fn histories(alpha: &[Op], depth: usize) -> Vec<Vec<Op>> {
    let mut out: Vec<Vec<Op>> = vec![vec![]];
    let mut frontier: Vec<Vec<Op>> = vec![vec![]];
    for _ in 0..depth {
        let mut next = vec![];
        for h in &frontier {
            for op in alpha {
                // the two sessions are interchangeable: the first session request of a history is S0's
                if op.session() == Some(1) && !h.iter().any(|o| o.session().is_some()) {
                    continue;
                }
                let mut n = h.clone();
                n.push(*op);
                next.push(n);
            }
        }
        out.extend(next.iter().cloned());
        frontier = next;
    }
    out
}

pub fn run_history(root: usize, h: &[Op]) -> Vec<(String, String)> {
    let sut = Sut::new(root);
    let mut m = root_model(root);
    let mut out = vec![];
    for op in h {
        let r = sut.apply(op);
        match (&r, op) {
            (Ok(Some(ans)), Op::Local(a, b)) => {
                let want = m.expected(None, &[(*a, *b)], false, false).get("p").cloned().unwrap_or_default();
                if *ans != want {
                    let leaked = m.expected(None, &[(*a, *b)], true, false).get("p").cloned().unwrap_or_default();
                    let diag = if *ans == leaked { "sees_a_sessions_state" } else { "other" };
                    out.push((format!("request_local_answer_differs:{diag}"), format!("{}: got {ans:?}, persistent data plus the request's own fact give {want:?}", op.text())));
                }
            }
            (Err(e), Op::Local(..)) => {
                // p unknown: acceptable only if the expected answer is empty
                let want = m.expected(None, &[], false, false).get("p").cloned().unwrap_or_default();
                if !want.is_empty() {
                    out.push(("request_local_query_fails".into(), format!("{}: {e}", op.text())));
                }
            }
            (Err(e), _) => {
                out.push((format!("request_rejected:{}", op.text().split(':').nth(1).unwrap_or("").trim().split('(').next().unwrap_or("").replace(' ', "_")), format!("{} failed: {e}", op.text())));
                return out;
            }
            _ => {}
        }
        m.apply(op);
    }
    out.extend(judge(&sut, &m));
    out
}

pub fn c10(args: &Args) -> i32 {
    quiet_panics();
    if let Some(r) = &args.replay {
        let j = read_replay(r);
        let case = &j["case"];
        if case["leg"] == "interleavings" {
            return crate::e4_c10::replay(args, case);
        }
        let root = case["root"].as_u64().unwrap_or(0) as usize;
        let h: Vec<Op> = serde_json::from_value::<Vec<String>>(case["history_debug"].clone()).ok().map(|v| v.iter().filter_map(|s| parse_op(s)).collect()).unwrap_or_default();
        println!("replaying root {root}, history {:?}", h.iter().map(|o| o.text()).collect::<Vec<_>>());
        let v = run_history(root, &h);
        for (c, d) in &v {
            println!("  {c}: {d}");
        }
        if v.is_empty() {
            println!("replay: no violation");
            return 0;
        }
        println!("VIOLATION property=C10 replay={}", r.display());
        return 1;
    }
    let run = Run::new(args, "model_checking", 55.0, 1500.0);
    let quick = run.quick();
    run.set_rule("E2 leg: EVERY request-level interleaving (history) of two sessions (ephemeral fact e(1,2) / e(2,1), a two-tuple insert that repeats e(1,2), retract, session rule p(Y,X) <- e(X,Y) / s(X) <- e(X,_), !e(_,X), `.session clear`), one persistent writer (+e(1,2), -e(1,2), +e(3,3), +p(X,Y) <- e(X,Y), +c(X,count<Y>) <- e(X,Y)) and one session-less request with a request-local fact, up to depth 3 over the full 20-request alphabet and depth 4 (thorough: 5) over a 12-request alphabet, from two start states (empty KG; KG with e(1,2) and both persistent rules); the two sessions are interchangeable, so histories whose first session request is S1's are skipped. Each history runs on a fresh real Handler through execute_program; afterwards S0, S1 and a session-less client each ask ?e, ?p, ?c, ?s and the answers are compared with R1 on (persistent facts + own facts, persistent rules + own rules); stored facts and registered rules must equal what the writer's requests alone produce. E4 leg: see `interleavings` in the evidence. non-trivial = histories with at least one session request and one writer request");
    run.assume("reference evaluator R1; a query on a relation nobody defined may answer with an error instead of an empty set");
    let full = alphabet(false);
    let red = alphabet(true);
    let mut work: Vec<(usize, Vec<Op>)> = vec![];
    for root in 0..2 {
        for h in histories(&full, 3) {
            work.push((root, h));
        }
        let deep = if quick { 4 } else { 5 };
        for h in histories(&red, deep) {
            if h.len() > 3 {
                work.push((root, h));
            }
        }
    }
    run.put("alphabet_full", json!(full.iter().map(|o| o.text()).collect::<Vec<_>>()));
    run.put("alphabet_reduced", json!(red.iter().map(|o| o.text()).collect::<Vec<_>>()));
    run.put("histories", json!(work.len()));
    let done = run.par_for(work.len(), threads(), |i, l| {
        let (root, h) = &work[i];
        l.eval();
        if h.iter().any(|o| o.session().is_some()) && h.iter().any(|o| matches!(o, Op::WIns(..) | Op::WDel(..) | Op::WRule(_))) {
            l.nontrivial(i as u64);
        }
        let r = catch_unwind(AssertUnwindSafe(|| run_history(*root, h)));
        match r {
            Ok(v) => {
                l.outcome(v.len() as u64);
                for (c, d) in v {
                    run.violation(&c, json!({"leg": "histories", "root": root, "history": h.iter().map(|o| o.text()).collect::<Vec<_>>(), "history_debug": h.iter().map(|o| format!("{o:?}")).collect::<Vec<_>>()}), format!("start state {root}, history {:?}: {d}", h.iter().map(|o| o.text()).collect::<Vec<_>>()));
                }
            }
            Err(p) => run.violation("panic", json!({"leg": "histories", "root": root, "history_debug": h.iter().map(|o| format!("{o:?}")).collect::<Vec<_>>()}), crate::e1::panic_msg(&p)),
        }
        if run.want_sample() && i % 1999 == 5 {
            run.sample(json!({"root": root, "history": h.iter().map(|o| o.text()).collect::<Vec<_>>()}));
        }
    });
    run.put("histories_completed", json!(done));
    let (hist_states, hist_transitions) = (done as u64, work.iter().take(done).map(|(_, h)| h.len() as u64).sum::<u64>());
    crate::e4_c10::interleavings(&run, hist_states, hist_transitions);
    run.finish()
}

pub fn parse_op(s: &str) -> Option<Op> {
    // Debug form, e.g. "Fact(0, 1, 2)"
    let open = s.find('(')?;
    let name = &s[..open];
    let nums: Vec<i64> = s[open + 1..s.len() - 1].split(',').filter_map(|x| x.trim().parse().ok()).collect();
    Some(match (name, nums.as_slice()) {
        ("Fact", [i, a, b]) => Op::Fact(*i as usize, *a, *b),
        ("Retract", [i, a, b]) => Op::Retract(*i as usize, *a, *b),
        ("Rule", [i, k]) => Op::Rule(*i as usize, *k as usize),
        ("Clear", [i]) => Op::Clear(*i as usize),
        ("FactBatch", [i]) => Op::FactBatch(*i as usize),
        ("WIns", [a, b]) => Op::WIns(*a, *b),
        ("WDel", [a, b]) => Op::WDel(*a, *b),
        ("WRule", [k]) => Op::WRule(*k as usize),
        ("Local", [a, b]) => Op::Local(*a, *b),
        _ => return None,
    })
}

#[allow(dead_code)]
fn unused(_: BTreeMap<String, String>) {}
