//! C35 — ordered and paginated results are exact slices (E2 over tiny relations x all annotations x all limits,
//! plus an enumerated family of 24-row relations for the "sorting never fails" clause).

use crate::common::*;
use crate::e2_handler::Env;
use inputlayer::protocol::wire::WireValue;
use inputlayer::{Tuple, Value};
use serde_json::json;
use std::cmp::Ordering;
use std::collections::BTreeSet;
use std::panic::{catch_unwind, AssertUnwindSafe};

/// Sort-key pool: both int widths, floats incl. NaN, strings, null.
pub fn key_pool() -> Vec<Value> {
    vec![
        Value::Int32(2),
        Value::Int32(9),
        Value::Int64(5),
        Value::Int64(-1),
        Value::Float64(4.0),
        Value::Float64(2.5),
        Value::Float64(f64::NAN),
        Value::string("a"),
        Value::string("b"),
        Value::Null,
    ]
}

fn num(v: &Value) -> Option<f64> {
    match v {
        Value::Int32(i) => Some(*i as f64),
        Value::Int64(i) => Some(*i as f64),
        Value::Float64(f) if !f.is_nan() => Some(*f),
        _ => None,
    }
}
/// The harness's own key order: numeric kinds by value, strings lexicographic, null = null;
/// everything else (NaN, different non-numeric kinds) mutually unordered.
fn pcmp(a: &Value, b: &Value) -> Option<Ordering> {
    if let (Some(x), Some(y)) = (num(a), num(b)) {
        return x.partial_cmp(&y);
    }
    match (a, b) {
        (Value::String(x), Value::String(y)) => Some(x.to_string().cmp(&y.to_string())),
        (Value::Null, Value::Null) => Some(Ordering::Equal),
        (Value::Bool(x), Value::Bool(y)) => Some(x.cmp(y)),
        _ => None,
    }
}
fn kind_tag(a: &Value, b: &Value) -> &'static str {
    let nan = |v: &Value| matches!(v, Value::Float64(f) if f.is_nan());
    if nan(a) || nan(b) {
        return "nan";
    }
    match (a, b) {
        (Value::Int32(_), Value::Int32(_)) | (Value::Int64(_), Value::Int64(_)) | (Value::Float64(_), Value::Float64(_)) | (Value::String(_), Value::String(_)) => "same_kind",
        (Value::Int64(_), Value::Float64(_)) | (Value::Float64(_), Value::Int64(_)) => "int64_vs_float",
        _ if num(a).is_some() && num(b).is_some() => "int32_vs_wider_numeric",
        _ => "cross_kind",
    }
}

#[derive(Clone, Debug)]
struct Row {
    keys: Vec<Value>,
    id: i64,
}

#[derive(Clone, Copy, Debug, PartialEq)]
enum Dir {
    Asc,
    Desc,
}

/// lexicographic partial order over the annotated columns; None as soon as a deciding pair is unordered
fn row_cmp(a: &Row, b: &Row, ann: &[(usize, Dir)]) -> Option<Ordering> {
    for (c, d) in ann {
        match pcmp(&a.keys[*c], &b.keys[*c]) {
            None => return None,
            Some(Ordering::Equal) => continue,
            Some(o) => return Some(if *d == Dir::Asc { o } else { o.reverse() }),
        }
    }
    Some(Ordering::Equal)
}
/// first inverted pair (i<j but row i > row j), if any
fn inversion(rows: &[&Row], ann: &[(usize, Dir)]) -> Option<(usize, usize)> {
    for i in 0..rows.len() {
        for j in (i + 1)..rows.len() {
            if row_cmp(rows[i], rows[j], ann) == Some(Ordering::Greater) {
                return Some((i, j));
            }
        }
    }
    None
}

fn perms(n: usize) -> Vec<Vec<usize>> {
    fn rec(cur: &mut Vec<usize>, used: &mut Vec<bool>, n: usize, out: &mut Vec<Vec<usize>>) {
        if cur.len() == n {
            out.push(cur.clone());
            return;
        }
        for i in 0..n {
            if !used[i] {
                used[i] = true;
                cur.push(i);
                rec(cur, used, n, out);
                cur.pop();
                used[i] = false;
            }
        }
    }
    let mut out = vec![];
    rec(&mut vec![], &mut vec![false; n], n, &mut out);
    out
}

fn setup(rows: &[Row]) -> Env {
    let env = Env::new("c35");
    env.create_kg("A");
    let ts: Vec<Tuple> = rows
        .iter()
        .map(|r| {
            let mut v = r.keys.clone();
            v.push(Value::Int64(r.id));
            Tuple::new(v)
        })
        .collect();
    env.insert("A", "r", ts);
    env
}

fn query_text(nkeys: usize, ann: &[(usize, Dir)], limit: Option<(usize, Option<usize>)>) -> String {
    let names = ["A", "B", "C"];
    let mut args: Vec<String> = vec![];
    for c in 0..nkeys {
        let a = ann.iter().find(|(cc, _)| *cc == c);
        args.push(match a {
            Some((_, Dir::Asc)) => format!("{}:asc", names[c]),
            Some((_, Dir::Desc)) => format!("{}:desc", names[c]),
            None => names[c].to_string(),
        });
    }
    args.push("V".into());
    let mut q = format!("?r({})", args.join(", "));
    match limit {
        Some((n, Some(o))) => q.push_str(&format!(", limit({n}, {o})")),
        Some((n, None)) => q.push_str(&format!(", limit({n})")),
        None => {}
    }
    q
}

fn ids_of(rows: &[inputlayer::protocol::wire::WireTuple]) -> Option<Vec<i64>> {
    rows.iter()
        .map(|t| match t.values.last() {
            Some(WireValue::Int64(i)) => Some(*i),
            _ => None,
        })
        .collect()
}

fn show_rows(rows: &[Row]) -> String {
    rows.iter().map(|r| format!("{:?}#{}", r.keys, r.id)).collect::<Vec<_>>().join(" ")
}

/// One relation: every annotation x every limit/offset. Returns violations.
fn c35_relation(rows: &[Row], nkeys: usize, quick: bool) -> (Vec<(String, String)>, u64) {
    let env = setup(rows);
    let mut out = vec![];
    let mut queries = 0u64;
    let mut anns: Vec<Vec<(usize, Dir)>> = vec![vec![], vec![(0, Dir::Asc)], vec![(0, Dir::Desc)]];
    if nkeys == 2 {
        for d0 in [Dir::Asc, Dir::Desc] {
            for d1 in [Dir::Asc, Dir::Desc] {
                anns.push(vec![(0, d0), (1, d1)]);
            }
        }
        anns.push(vec![(1, Dir::Asc)]);
    }
    let n = rows.len();
    let mut limits: Vec<Option<(usize, Option<usize>)>> = vec![None];
    for l in 0..=(n + 1) {
        limits.push(Some((l, None)));
        for o in 0..=(n + 1) {
            if quick && o > 0 && l == 0 {
                continue;
            }
            limits.push(Some((l, Some(o))));
        }
    }
    for ann in &anns {
        // all valid full orders (brute force, n <= 4)
        let valid: Vec<Vec<usize>> = perms(n).into_iter().filter(|p| inversion(&p.iter().map(|i| &rows[*i]).collect::<Vec<_>>(), ann).is_none()).collect();
        for lim in &limits {
            let q = query_text(nkeys, ann, *lim);
            queries += 1;
            let r = env.query_program(Some("A"), &q);
            let ctx = || format!("relation [{}] query `{q}`", show_rows(rows));
            let worst_tag = {
                let mut t = "same_kind";
                for a in rows {
                    for b in rows {
                        for (c, _) in ann {
                            let k = kind_tag(&a.keys[*c], &b.keys[*c]);
                            if k != "same_kind" {
                                t = k;
                            }
                        }
                    }
                }
                t
            };
            let qr = match r {
                Err(e) => {
                    out.push((format!("request_failed:{worst_tag}"), format!("{}: {e}", ctx())));
                    continue;
                }
                Ok(q) => q,
            };
            if qr.total_count != n {
                out.push(("total_count".into(), format!("{}: total_count={} but the full answer has {n} rows", ctx(), qr.total_count)));
            }
            let Some(ids) = ids_of(&qr.rows) else {
                out.push(("malformed_rows".into(), format!("{}: {:?}", ctx(), qr.rows)));
                continue;
            };
            let (l, o) = match lim {
                None => (n, 0),
                Some((l, o)) => (*l, o.unwrap_or(0)),
            };
            let want_len = l.min(n.saturating_sub(o));
            if ids.len() != want_len {
                out.push(("slice_length".into(), format!("{}: returned {} rows, the slice [{o},{o}+{l}) of {n} rows has {want_len}", ctx(), ids.len())));
                continue;
            }
            let set: BTreeSet<i64> = ids.iter().copied().collect();
            if set.len() != ids.len() || ids.iter().any(|i| !rows.iter().any(|r| r.id == *i)) {
                out.push(("rows_not_from_answer".into(), format!("{}: returned ids {ids:?}", ctx())));
                continue;
            }
            if ann.is_empty() {
                continue; // no order requested: any slice of the right size is fine
            }
            // must be the [o, o+l) slice of SOME valid full order
            let ok = valid.iter().any(|p| {
                let slice: Vec<i64> = p.iter().skip(o).take(l).map(|i| rows[*i].id).collect();
                slice == ids
            });
            if !ok {
                let what = if lim.is_none() { "not_sorted" } else { "not_a_slice_of_a_sorted_answer" };
                out.push((format!("{what}:{worst_tag}"), format!("{}: returned ids {ids:?}; no ordering of the answer that respects the annotations has this slice", ctx())));
            }
        }
    }
    (out, queries)
}

/// The "never fails" family: 24 rows, sort column = distinct floats in a base order with NaNs at chosen positions.
fn big_cases() -> Vec<Vec<Row>> {
    let mut out = vec![];
    let n = 24usize;
    let bases: Vec<Vec<f64>> = vec![(0..n).map(|i| i as f64).collect(), (0..n).rev().map(|i| i as f64).collect(), (0..n).map(|i| if i % 2 == 0 { i as f64 } else { (n - i) as f64 + 0.5 }).collect()];
    let slots = [0usize, 5, 11, 17, 23];
    for base in &bases {
        for mask in 0u32..32 {
            let rows: Vec<Row> = (0..n)
                .map(|i| {
                    let is_nan = slots.iter().enumerate().any(|(k, s)| *s == i && mask & (1 << k) != 0);
                    Row { keys: vec![Value::Float64(if is_nan { f64::NAN } else { base[i] })], id: i as i64 }
                })
                .collect();
            out.push(rows);
        }
    }
    // mixed widths, 24 rows
    let rows: Vec<Row> = (0..n).map(|i| Row { keys: vec![match i % 3 { 0 => Value::Int32((n - i) as i32), 1 => Value::Int64(i as i64 * 2), _ => Value::Float64(i as f64 + 0.5) }], id: i as i64 }).collect();
    out.push(rows);
    out
}

pub fn c35(args: &Args) -> i32 {
    quiet_panics();
    let run = Run::new(args, "model_checking", 55.0, 1500.0);
    if args.replay.is_some() {
        eprintln!("C35: replay files carry the relation and query text in `detail`; re-run ./check C35 (the space is small)");
    }
    run.set_rule("relations r(K.., V) of 2..3 (thorough 4) rows whose sort column(s) take ALL pairs/triples of a 10-value pool (Int32, Int64, Float64 incl. NaN, String, Null), V a unique row id; one- and two-key relations; every annotation set (none, K:asc, K:desc, all four two-key direction combinations, second key only) x every limit(n) / limit(n,o) with n,o <= rows+1, through Handler::query_program. Oracle (harness's own order: numeric kinds by value, strings lexicographic; NaN and different non-numeric kinds unordered): the request never fails; total_count = full answer size; the returned rows are exactly the [o,o+n) slice of SOME ordering of the answer without an inverted pair (brute force over all permutations). Plus 97 relations of 24 rows (distinct floats in 3 base orders with NaNs at every subset of 5 positions; mixed widths) for the 'sorting never fails' clause. non-trivial = relations with at least two different keys; states = distinct (row count, key count)");
    let pool = key_pool();
    let mut rels: Vec<(Vec<Row>, usize)> = vec![];
    for a in &pool {
        for b in &pool {
            rels.push((vec![Row { keys: vec![a.clone()], id: 1 }, Row { keys: vec![b.clone()], id: 2 }], 1));
            for c in &pool {
                rels.push((vec![Row { keys: vec![a.clone()], id: 1 }, Row { keys: vec![b.clone()], id: 2 }, Row { keys: vec![c.clone()], id: 3 }], 1));
            }
        }
    }
    // two keys: first key with ties, second key from the pool
    let firsts = [Value::Int64(1), Value::Int64(1), Value::Int64(2)];
    let sub: Vec<Value> = if run.quick() { vec![pool[0].clone(), pool[2].clone(), pool[4].clone(), pool[6].clone(), pool[7].clone()] } else { pool.clone() };
    for a in &sub {
        for b in &sub {
            for c in &sub {
                rels.push((vec![Row { keys: vec![firsts[0].clone(), a.clone()], id: 1 }, Row { keys: vec![firsts[1].clone(), b.clone()], id: 2 }, Row { keys: vec![firsts[2].clone(), c.clone()], id: 3 }], 2));
            }
        }
    }
    if !run.quick() {
        let sub4 = [pool[0].clone(), pool[2].clone(), pool[4].clone(), pool[6].clone(), pool[7].clone(), pool[9].clone()];
        for a in &sub4 {
            for b in &sub4 {
                for c in &sub4 {
                    for d in &sub4 {
                        rels.push((vec![Row { keys: vec![a.clone()], id: 1 }, Row { keys: vec![b.clone()], id: 2 }, Row { keys: vec![c.clone()], id: 3 }, Row { keys: vec![d.clone()], id: 4 }], 1));
                    }
                }
            }
        }
    }
    run.put("small_relations", json!(rels.len()));
    let states = std::sync::Mutex::new(BTreeSet::new());
    let queries = std::sync::atomic::AtomicU64::new(0);
    let done = run.par_for(rels.len(), threads(), |i, l| {
        let (rows, nk) = &rels[i];
        l.eval();
        if rows.iter().any(|r| format!("{:?}", r.keys) != format!("{:?}", rows[0].keys)) {
            l.nontrivial(i as u64);
        }
        let r = catch_unwind(AssertUnwindSafe(|| c35_relation(rows, *nk, run.quick())));
        match r {
            Ok((v, q)) => {
                queries.fetch_add(q, std::sync::atomic::Ordering::Relaxed);
                l.outcome(v.len() as u64);
                states.lock().unwrap().insert((rows.len(), *nk));
                for (c, d) in v {
                    run.violation(&c, json!({"relation": show_rows(rows), "keys": nk}), d);
                }
                if run.want_sample() && i % 401 == 5 {
                    run.sample(json!({"relation": show_rows(rows), "sort_keys": nk}));
                }
            }
            Err(p) => run.violation("panic", json!({"relation": show_rows(rows)}), crate::e1::panic_msg(&p)),
        }
    });
    // 24-row family
    let big = big_cases();
    run.put("big_relations", json!(big.len()));
    let done2 = run.par_for(big.len(), threads(), |i, l| {
        let rows = &big[i];
        l.eval();
        l.nontrivial(1_000_000 + i as u64);
        let r = catch_unwind(AssertUnwindSafe(|| {
            let env = setup(rows);
            let mut v = vec![];
            for dir in [Dir::Asc, Dir::Desc] {
                let ann = vec![(0usize, dir)];
                let q = query_text(1, &ann, None);
                let nan_count = rows.iter().filter(|r| matches!(r.keys[0], Value::Float64(f) if f.is_nan())).count();
                let tag = if nan_count > 0 { "nan" } else { "no_nan" };
                match env.query_program(Some("A"), &q) {
                    Err(e) => v.push((format!("request_failed:24_rows:{tag}"), format!("24 rows with {nan_count} NaN keys, `{q}`: {e}"))),
                    Ok(qr) => {
                        let ids = ids_of(&qr.rows).unwrap_or_default();
                        let set: BTreeSet<i64> = ids.iter().copied().collect();
                        if ids.len() != rows.len() || set.len() != rows.len() || qr.total_count != rows.len() {
                            v.push((format!("rows_lost_or_duplicated:24_rows:{tag}"), format!("`{q}` returned {} rows / total_count {} for {} stored", ids.len(), qr.total_count, rows.len())));
                            continue;
                        }
                        let ordered: Vec<&Row> = ids.iter().map(|i| rows.iter().find(|r| r.id == *i).unwrap()).collect();
                        if let Some((a, b)) = inversion(&ordered, &ann) {
                            v.push((format!("not_sorted:24_rows:{tag}"), format!("`{q}` over [{}]: position {a} ({:?}) comes before position {b} ({:?})", show_rows(rows), ordered[a].keys, ordered[b].keys)));
                        }
                    }
                }
            }
            v
        }));
        match r {
            Ok(v) => {
                queries.fetch_add(2, std::sync::atomic::Ordering::Relaxed);
                states.lock().unwrap().insert((24, 1));
                for (c, d) in v {
                    run.violation(&c, json!({"relation": show_rows(rows)}), d);
                }
            }
            Err(p) => run.violation("panic:24_rows", json!({"relation": show_rows(rows)}), crate::e1::panic_msg(&p)),
        }
    });
    run.put("queries_executed", json!(queries.load(std::sync::atomic::Ordering::Relaxed)));
    run.put("states", json!(states.lock().unwrap().len()));
    run.put("transitions", json!(queries.load(std::sync::atomic::Ordering::Relaxed)));
    run.put("traces_validated_against_impl", json!(done + done2));
    run.finish()
}
