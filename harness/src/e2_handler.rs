//! E2 over programs, driven through the real protocol Handler: C27, C29, C30, C32.

use crate::common::*;
use crate::e2_store::mk_config;
use inputlayer::auth::{AuthIdentity, Role, INTERNAL_KG};
use inputlayer::protocol::wire::{QueryResult, WireValue};
use inputlayer::protocol::Handler;
use inputlayer::{DurabilityMode, StorageEngine, Tuple, Value};
use serde_json::json;
use std::collections::{BTreeMap, BTreeSet};
use std::panic::{catch_unwind, AssertUnwindSafe};

thread_local! {
    static RT: tokio::runtime::Runtime = tokio::runtime::Builder::new_current_thread().enable_all().max_blocking_threads(2).build().expect("tokio runtime");
}

pub struct Env {
    pub scratch: Scratch,
    pub handler: Handler,
}

#[derive(Clone, Debug, PartialEq, Eq, Default)]
pub struct KgState {
    pub facts: BTreeMap<String, BTreeSet<String>>,
    pub rules: BTreeMap<String, String>,
    pub schemas: BTreeMap<String, String>,
}

pub type AllState = BTreeMap<String, KgState>;

impl Env {
    pub fn new(tag: &str) -> Env {
        let scratch = Scratch::new(tag);
        let mut cfg = mk_config(scratch.path(), 10000, DurabilityMode::Immediate, None);
        cfg.storage.auto_create_knowledge_graphs = false;
        let storage = StorageEngine::new(cfg).expect("storage opens");
        Env {
            scratch,
            handler: Handler::new(storage),
        }
    }
    /// Open a handler over an existing data directory (crash images).
    pub fn open(scratch: Scratch) -> Result<Env, String> {
        let mut cfg = mk_config(scratch.path(), 10000, DurabilityMode::Immediate, None);
        cfg.storage.auto_create_knowledge_graphs = false;
        let storage = StorageEngine::new(cfg).map_err(|e| format!("{e}"))?;
        Ok(Env { scratch, handler: Handler::new(storage) })
    }
    /// Clean restart: drop the handler (and its storage engine), reopen on the same directory.
    pub fn restart(self) -> Result<Env, String> {
        let Env { scratch, handler } = self;
        handler.shutdown();
        drop(handler);
        let mut cfg = mk_config(scratch.path(), 10000, DurabilityMode::Immediate, None);
        cfg.storage.auto_create_knowledge_graphs = false;
        let storage = StorageEngine::new(cfg).map_err(|e| format!("reopen: {e}"))?;
        Ok(Env { scratch, handler: Handler::new(storage) })
    }
    pub fn run(&self, session: Option<&String>, kg: Option<&str>, program: &str, auth: Option<&AuthIdentity>) -> Result<QueryResult, String> {
        let p = program.to_string();
        let kg = kg.map(|s| s.to_string());
        RT.with(|rt| rt.block_on(self.handler.execute_program(session, kg, p, auth)))
    }
    pub fn query_program(&self, kg: Option<&str>, program: &str) -> Result<QueryResult, String> {
        let p = program.to_string();
        let kg = kg.map(|s| s.to_string());
        RT.with(|rt| rt.block_on(self.handler.query_program(kg, p)))
    }
    pub fn create_kg(&self, name: &str) {
        let s = self.handler.get_storage();
        s.create_knowledge_graph(name).expect("create kg");
    }
    pub fn insert(&self, kg: &str, rel: &str, rows: Vec<Tuple>) {
        let s = self.handler.get_storage();
        s.insert_tuples_into(kg, rel, rows).expect("insert");
    }
    /// Users and ACLs are plain relations of the internal KG; writing them directly avoids argon2 cost.
    pub fn add_user(&self, name: &str, role: &str) {
        {
            let s = self.handler.get_storage();
            if !s.list_knowledge_graphs().iter().any(|k| k == INTERNAL_KG) {
                s.create_knowledge_graph(INTERNAL_KG).expect("internal kg");
            }
        }
        self.insert(INTERNAL_KG, "users", vec![Tuple::new(vec![Value::string(name), Value::string("x"), Value::string(role)])]);
    }
    pub fn grant(&self, kg: &str, user: &str, role: &str) {
        self.insert(INTERNAL_KG, "kg_acls", vec![Tuple::new(vec![Value::string(kg), Value::string(user), Value::string(role)])]);
    }
    pub fn kg_state(&self, kg: &str) -> KgState {
        let s = self.handler.get_storage();
        let mut st = KgState::default();
        if let Ok(snap) = s.get_snapshot_for(kg) {
            for (rel, rows) in snap.input_tuples.iter() {
                let set: BTreeSet<String> = rows.iter().map(|t| format!("{t:?}")).collect();
                if !set.is_empty() {
                    st.facts.insert(rel.clone(), set);
                }
            }
        }
        if let Ok(rules) = s.list_rules_in(kg) {
            for r in rules {
                let d = s.describe_rule_in(kg, &r).ok().flatten().unwrap_or_default();
                st.rules.insert(r, d);
            }
        }
        if let Ok(schemas) = s.list_schemas_in(kg) {
            for n in schemas {
                let d = s.get_schema_in(kg, &n).ok().flatten().map(|x| format!("{x:?}")).unwrap_or_default();
                st.schemas.insert(n, d);
            }
        }
        st
    }
    pub fn all_state(&self) -> AllState {
        let kgs = {
            let s = self.handler.get_storage();
            s.list_knowledge_graphs()
        };
        kgs.into_iter().map(|k| (k.clone(), self.kg_state(&k))).collect()
    }
}

pub fn messages(r: &Result<QueryResult, String>) -> Vec<String> {
    match r {
        Ok(q) => q
            .rows
            .iter()
            .filter_map(|row| match row.values.first() {
                Some(WireValue::String(s)) => Some(s.clone()),
                _ => None,
            })
            .collect(),
        Err(e) => vec![format!("ERR {e}")],
    }
}

// ---------------------------------------------------------------------------
// program alphabet shared by C27 / C30

/// (symbol name, text — may span two physical lines for the continuation symbol)
pub fn line_alphabet() -> Vec<(&'static str, &'static str)> {
    vec![
        ("query", "?e(X)"),
        ("insert", "+e(3)"),
        ("delete", "-e(1)"),
        ("prule", "+p2(X) <- e(X)"),
        ("schema", "+s2(a: int)"),
        ("reldrop", ".rel drop e"),
        ("ruledrop", ".rule drop p"),
        ("kguse", ".kg use B"),
        ("kgcreate", ".kg create C"),
        ("comment_slash", "// c"),
        ("comment_pct", "% c"),
        ("comment_block", "/* c */"),
        ("insert_trailing_comment", "+e(4) // c"),
        ("blank", ""),
        ("continuation", "+p3(X) <-\n    e(X)"),
        ("srule", "t(X) <- e(X)"),
        ("sfact", "e(9)"),
        // indented statements: continuation of the previous line, or a statement of its own after a comment
        ("indented_kguse", "  .kg use B"),
        ("indented_insert", "  +e(5)"),
        // creating a KG that already exists fails at execution time
        ("kgcreate_existing", ".kg create B"),
        // a read-only statement on the current KG, and statements that NAME the KG they act on (owner-only)
        ("rellist", ".rel"),
        ("kgdrop_b", ".kg drop B"),
        ("aclgrant_b", ".kg acl grant B bob owner"),
        // a meta command split over two lines (each line alone is not a statement)
        ("userdrop_head", ".user drop"),
        ("bare_username", "u"),
        ("aclgrant_head", ".kg acl grant"),
        ("aclgrant_args", "B bob owner"),
    ]
}

fn programs(max_lines: usize, alpha: &[(&'static str, &'static str)]) -> Vec<Vec<usize>> {
    let mut out: Vec<Vec<usize>> = vec![];
    let mut level: Vec<Vec<usize>> = vec![vec![]];
    for _ in 0..max_lines {
        let mut nx = vec![];
        for p in &level {
            for i in 0..alpha.len() {
                let mut q = p.clone();
                q.push(i);
                nx.push(q);
            }
        }
        out.extend(nx.iter().cloned());
        level = nx;
    }
    out
}

fn program_text(p: &[usize], alpha: &[(&'static str, &'static str)]) -> String {
    p.iter().map(|i| alpha[*i].1).collect::<Vec<_>>().join("\n")
}
fn program_names(p: &[usize], alpha: &[(&'static str, &'static str)]) -> String {
    p.iter().map(|i| alpha[*i].0).collect::<Vec<_>>().join(" | ")
}

fn setup_two_kgs(env: &Env) {
    for kg in ["A", "B"] {
        env.create_kg(kg);
        env.insert(kg, "e", vec![Tuple::new(vec![Value::Int64(1)]), Tuple::new(vec![Value::Int64(2)])]);
        let r = env.query_program(Some(kg), "+p(X) <- e(X)");
        assert!(r.is_ok(), "setup rule: {r:?}");
        let r = env.query_program(Some(kg), "+s(a: int)");
        assert!(r.is_ok(), "setup schema: {r:?}");
    }
}

#[derive(Clone, Copy, Debug, PartialEq, Eq)]
pub struct Ident {
    pub global: u8, // 0 viewer 1 editor
    pub a: u8,      // 0 none 1 viewer 2 editor 3 owner
    pub b: u8,
}
const KGROLE: [&str; 4] = ["none", "viewer", "editor", "owner"];

fn all_idents() -> Vec<Ident> {
    let mut v = vec![];
    for global in 0..2 {
        for a in 0..4 {
            for b in 0..4 {
                v.push(Ident { global, a, b });
            }
        }
    }
    v
}

fn shape(p: &[usize], alpha: &[(&'static str, &'static str)]) -> &'static str {
    let stmts: Vec<&str> = p.iter().map(|i| alpha[*i].0).filter(|n| !n.starts_with("comment") && *n != "blank").collect();
    let has_noise = p.len() != stmts.len() || p.iter().any(|i| alpha[*i].0 == "insert_trailing_comment" || alpha[*i].0 == "continuation");
    if stmts.len() >= 2 {
        if stmts.contains(&"kguse") {
            "multi_statement_with_kg_use"
        } else {
            "multi_statement"
        }
    } else if has_noise {
        "single_statement_with_comment_blank_or_continuation"
    } else {
        "single_statement"
    }
}

/// Returns violations as (class, detail).
fn c27_one(p: &[usize], id: Ident, alpha: &[(&'static str, &'static str)]) -> Vec<(String, String)> {
    let env = Env::new("c27");
    setup_two_kgs(&env);
    let role = if id.global == 0 { "viewer" } else { "editor" };
    env.add_user("u", role);
    if id.a > 0 {
        env.grant("A", "u", KGROLE[id.a as usize]);
    }
    if id.b > 0 {
        env.grant("B", "u", KGROLE[id.b as usize]);
    }
    let before = env.all_state();
    let identity = AuthIdentity {
        username: "u".into(),
        role: if id.global == 0 { Role::Viewer } else { Role::Editor },
    };
    let text = program_text(p, alpha);
    let res = env.run(None, Some("A"), &text, Some(&identity));
    let after = env.all_state();
    let mut out = vec![];
    let sh = shape(p, alpha);
    for (kg, role_idx) in [("A", id.a), ("B", id.b)] {
        let can_write = role_idx >= 2;
        if !can_write && before.get(kg) != after.get(kg) {
            out.push((
                format!("{sh}:changed_kg_without_write_permission:role_{}", KGROLE[role_idx as usize]),
                format!(
                    "identity global={role} A={} B={}; program [{}] submitted on A changed KG {kg}: before {:?} after {:?}; reply {:?}",
                    KGROLE[id.a as usize],
                    KGROLE[id.b as usize],
                    program_names(p, alpha),
                    before.get(kg),
                    after.get(kg),
                    messages(&res)
                ),
            ));
        }
    }
    // dropping a KG and managing its ACLs are the owner's alone
    for (kg, role_idx) in [("A", id.a), ("B", id.b)] {
        if before.contains_key(kg) && !after.contains_key(kg) && role_idx != 3 {
            out.push((format!("{sh}:kg_dropped_without_owner_role:role_{}", KGROLE[role_idx as usize]), format!("identity global={role} A={} B={}; program [{}] submitted on A dropped KG {kg}; reply {:?}", KGROLE[id.a as usize], KGROLE[id.b as usize], program_names(p, alpha), messages(&res))));
        }
    }
    // the internal KG must never change through a non-admin request
    if before.get(INTERNAL_KG) != after.get(INTERNAL_KG) {
        // creating C auto-grants an owner ACL to the creator: allowed only when C was created by a permitted identity;
        // B's owner may grant access to B and, dropping B, removes its ACL rows
        let created_c = after.contains_key("C") && !before.contains_key("C");
        let owner_of_b_acts = id.b == 3 && p.iter().any(|i| matches!(alpha[*i].0, "aclgrant_b" | "kgdrop_b" | "aclgrant_head"));
        if !(created_c && id.global == 1) && !owner_of_b_acts {
            out.push((format!("{sh}:internal_kg_changed"), format!("program [{}] by global {role}: _internal changed", program_names(p, alpha))));
        }
    }
    // KG creation is refused to global viewers
    if id.global == 0 && after.contains_key("C") {
        out.push((format!("{sh}:global_viewer_created_kg"), format!("program [{}]: KG C exists after request by a global viewer", program_names(p, alpha))));
    }
    out
}

pub fn c27(args: &Args) -> i32 {
    quiet_panics();
    let alpha = line_alphabet();
    if let Some(pth) = &args.replay {
        let j = read_replay(pth);
        let p: Vec<usize> = serde_json::from_value(j["case"]["program_idx"].clone()).expect("program_idx");
        let id = Ident {
            global: j["case"]["global"].as_u64().unwrap() as u8,
            a: j["case"]["a"].as_u64().unwrap() as u8,
            b: j["case"]["b"].as_u64().unwrap() as u8,
        };
        let v = c27_one(&p, id, &alpha);
        for (c, d) in &v {
            println!("class={c} {d}");
        }
        if !v.is_empty() {
            println!("VIOLATION property=C27 replay={}", pth.display());
        }
        return (!v.is_empty()) as i32;
    }
    let run = Run::new(args, "model_checking", 55.0, 1500.0);
    let max_lines = if run.quick() { 2 } else { 3 };
    let mut progs = programs(max_lines, &alpha);
    if run.quick() {
        // the quick tier also takes every three-line program over the lines that move between KGs or change their
        // existence (a switch that fails at run time is the dangerous case) plus one write and one read
        let nav: Vec<usize> = alpha.iter().enumerate().filter(|(_, (n, _))| matches!(*n, "kguse" | "kgcreate" | "kgcreate_existing" | "kgdrop_b" | "insert" | "query" | "indented_kguse")).map(|(i, _)| i).collect();
        for a in &nav {
            for b in &nav {
                for c in &nav {
                    progs.push(vec![*a, *b, *c]);
                }
            }
        }
    }
    let idents = all_idents();
    run.set_rule("all programs of 1..L lines (L = 2 quick, 3 thorough; quick adds every 3-line program over the 7 lines that switch, create or drop a KG, write or read) over a 27-symbol line alphabet (query, insert, delete, persistent rule, schema, .rel drop, .rule drop, .kg use B, .kg create C, .kg create B (exists), three comment styles, trailing comment, blank line, indented continuation, indented statements, session rule, session fact, .rel, .kg drop B, .kg acl grant B, and two meta commands split over two lines) x 32 identities (global viewer/editor x role on A x role on B in none/viewer/editor/owner), submitted through Handler::execute_program on KG A of a freshly built two-KG store; a KG on which the caller lacks write permission must be unchanged (facts, rules, schemas), the internal KG unchanged, no KG created by a global viewer. Admin-only leg: 7 statements that manage users, API keys or compaction x 6 shapes x the 32 identities: refused, internal KG unchanged. non-trivial = (program, identity) pairs whose program contains a state-changing line");
    run.put("programs", json!(progs.len()));
    run.put("identities", json!(idents.len()));
    let total = progs.len() * idents.len();
    let states = std::sync::Mutex::new(BTreeSet::new());
    let done = run.par_for(total, threads(), |i, l| {
        let p = &progs[i / idents.len()];
        let id = idents[i % idents.len()];
        l.eval();
        let writes = p.iter().any(|x| !matches!(alpha[*x].0, "query" | "comment_slash" | "comment_pct" | "comment_block" | "blank" | "srule" | "sfact"));
        if writes {
            l.nontrivial(i as u64);
        }
        let r = catch_unwind(AssertUnwindSafe(|| c27_one(p, id, &alpha)));
        match r {
            Ok(v) => {
                l.outcome(v.len() as u64);
                states.lock().unwrap().insert((shape(p, &alpha), id.a >= 2, id.b >= 2, id.global));
                for (class, detail) in v {
                    run.violation(&class, json!({"program_idx": p, "program": program_text(p, &alpha), "global": id.global, "a": id.a, "b": id.b}), detail);
                }
                if run.want_sample() && i % 2003 == 0 {
                    run.sample(json!({"program": program_text(p, &alpha), "identity": format!("{id:?}")}));
                }
            }
            Err(pn) => run.violation("panic", json!({"program_idx": p, "global": id.global, "a": id.a, "b": id.b}), crate::e1::panic_msg(&pn)),
        }
    });
    // admin-only leg: statements that manage users, API keys or compaction, in the shapes that have slipped past
    // authorization before (alone, after a comment, before a write, after a KG switch, indented after a comment,
    // split over two lines); no non-admin identity may get them accepted or change the internal KG with them
    let admin_only = [".user create zed Passw0rd12345 viewer", ".user drop u", ".user role u editor", ".user password u Newpassw0rd123", ".apikey create k1", ".apikey revoke k1", ".compact"];
    let mut admin_cases = 0u64;
    for stmt in admin_only {
        let split = stmt.rsplitn(2, ' ').collect::<Vec<_>>();
        let mut shapes: Vec<(&str, String)> = vec![("alone", stmt.to_string()), ("after_comment", format!("// c\n{stmt}")), ("before_write", format!("{stmt}\n+e(3)")), ("after_kg_use", format!(".kg use B\n{stmt}")), ("indented_after_comment", format!("% c\n  {stmt}"))];
        if split.len() == 2 {
            shapes.push(("split_over_two_lines", format!("{}\n{}", split[1], split[0])));
        }
        for (shape_name, text) in shapes {
            for id in &idents {
                admin_cases += 1;
                run.evaluations.fetch_add(1, std::sync::atomic::Ordering::Relaxed);
                let env = Env::new("c27adm");
                setup_two_kgs(&env);
                let role = if id.global == 0 { "viewer" } else { "editor" };
                env.add_user("u", role);
                if id.a > 0 {
                    env.grant("A", "u", KGROLE[id.a as usize]);
                }
                if id.b > 0 {
                    env.grant("B", "u", KGROLE[id.b as usize]);
                }
                let before = env.kg_state(INTERNAL_KG);
                let identity = AuthIdentity { username: "u".into(), role: if id.global == 0 { Role::Viewer } else { Role::Editor } };
                let res = env.run(None, Some("A"), &text, Some(&identity));
                let after = env.kg_state(INTERNAL_KG);
                let kind = stmt.split(' ').take(2).collect::<Vec<_>>().join("_").replace('.', "");
                let case = json!({"leg": "admin_only", "program": text, "global": id.global, "a": id.a, "b": id.b});
                if before != after {
                    run.violation(&format!("admin_only:{kind}:{shape_name}:internal_kg_changed"), case, format!("identity global={role} A={} B={}: request {text:?} changed the internal KG; reply {:?}", KGROLE[id.a as usize], KGROLE[id.b as usize], messages(&res)));
                } else if shape_name != "split_over_two_lines" && shape_name != "before_write" {
                    // the statement itself must be refused (a split command is not a statement at all and may fail any way)
                    let refused = match &res {
                        Err(_) => true,
                        Ok(_) => messages(&res).iter().any(|m| m.contains("enied") || m.contains("ermission") || m.contains("rror") || m.contains("failed")),
                    };
                    if !refused {
                        run.violation(&format!("admin_only:{kind}:{shape_name}:accepted"), case, format!("identity global={role} A={} B={}: request {text:?} was not refused; reply {:?}", KGROLE[id.a as usize], KGROLE[id.b as usize], messages(&res)));
                    }
                }
            }
        }
    }
    run.put("admin_only_cases", json!(admin_cases));
    run.put("states", json!(states.lock().unwrap().len()));
    run.put("transitions", json!(done));
    run.put("traces_validated_against_impl", json!(done));
    run.put("max_lines", json!(max_lines));
    run.finish()
}

// ---------------------------------------------------------------------------
// C30: a program with a syntax error has no effect; otherwise statements apply in order

const MALFORMED: [&str; 7] = ["+e(", "?", "+p(X) <- ", ".bogus", "e(1", "    e(1", "    , X >"];

fn c30_setup() -> Env {
    let env = Env::new("c30");
    setup_two_kgs(&env);
    env
}

pub fn c30(args: &Args) -> i32 {
    quiet_panics();
    let alpha: Vec<(&'static str, &'static str)> = line_alphabet().into_iter().filter(|(n, _)| *n != "kgcreate").collect();
    let run = Run::new(args, "model_checking", 55.0, 1500.0);
    let max_lines = if run.quick() { 2 } else { 3 };
    let progs = programs(max_lines, &alpha);
    run.set_rule("all valid programs of 1..L lines over the C27 line alphabet (admin/no-auth identity, KG A): (a) with one malformed line from {'+e(', '?', '+p(X) <- ', '.bogus', 'e(1'} injected at every position the request must be rejected and facts/rules/schemas of every KG unchanged; (b) uninjected, the final state must equal the state reached by submitting the lines one request at a time in order. non-trivial = distinct (program, injection) with at least one state-changing line");
    run.put("programs", json!(progs.len()));
    let states = std::sync::Mutex::new(BTreeSet::new());
    let transitions = std::sync::atomic::AtomicU64::new(0);
    let done = run.par_for(progs.len(), threads(), |i, l| {
        let p = &progs[i];
        let r = catch_unwind(AssertUnwindSafe(|| {
            // (b) sequential agreement
            {
                let whole = c30_setup();
                let res = whole.run(None, Some("A"), &program_text(p, &alpha), None);
                let st_whole = whole.all_state();
                let seq = c30_setup();
                let mut kg = "A".to_string();
                // the statements of the program under the documented continuation rule (an indented line
                // continues the previous one; comment lines are dropped first)
                for line in logical_lines(&program_text(p, &alpha)) {
                    let line = line.as_str();
                    let r1 = seq.run(None, Some(&kg), line, None);
                    if let Ok(q) = &r1 {
                        if let Some(k) = &q.switched_kg {
                            kg = k.clone();
                        }
                    }
                }
                let st_seq = seq.all_state();
                l.eval();
                transitions.fetch_add(p.len() as u64 + 1, std::sync::atomic::Ordering::Relaxed);
                l.nontrivial(fnv(format!("{p:?}").as_bytes()));
                l.outcome(fnv(format!("{st_whole:?}").as_bytes()));
                states.lock().unwrap().insert(fnv(format!("{st_whole:?}").as_bytes()));
                if st_whole != st_seq && res.is_ok() {
                    let first_diff = st_whole.iter().find(|(k, v)| st_seq.get(*k) != Some(v)).map(|(k, _)| k.clone()).unwrap_or_default();
                    run.violation(
                        &format!("whole_program_differs_from_line_by_line:{}", shape(p, &alpha)),
                        json!({"program_idx": p, "program": program_text(p, &alpha)}),
                        format!("program [{}]: KG {first_diff} whole {:?} vs line-by-line {:?}; reply {:?}", program_names(p, &alpha), st_whole.get(&first_diff), st_seq.get(&first_diff), messages(&res)),
                    );
                }
                if run.want_sample() && i % 97 == 0 {
                    run.sample(json!({"program": program_text(p, &alpha), "reply": messages(&res)}));
                }
            }
            // (a) injection at every position
            for pos in 0..=p.len() {
                for bad in MALFORMED {
                    let mut lines: Vec<&str> = p.iter().map(|x| alpha[*x].1).collect();
                    lines.insert(pos, bad);
                    let text = lines.join("\n");
                    // the case applies only if some logical statement (comment lines dropped, indented
                    // continuation lines joined - harness-side re-implementation) really fails to parse
                    if !logical_lines(&text).iter().any(|l| inputlayer::statement::parse_statement(l).is_err()) {
                        l.count("injection_absorbed_by_comment_or_lenient_meta_parser_not_a_case", 1);
                        continue;
                    }
                    let env = c30_setup();
                    let before = env.all_state();
                    let res = env.run(None, Some("A"), &text, None);
                    let after = env.all_state();
                    l.eval();
                    transitions.fetch_add(1, std::sync::atomic::Ordering::Relaxed);
                    l.nontrivial(fnv(format!("{p:?}{pos}{bad}").as_bytes()));
                    let sh = if pos == 0 { "error_first" } else if pos == p.len() { "error_last" } else { "error_middle" };
                    if res.is_ok() {
                        run.violation(&format!("malformed_program_accepted:{bad}"), json!({"program": text}), format!("program {text:?} was not rejected: {:?}", messages(&res)));
                    }
                    if before != after {
                        run.violation(&format!("partial_effect_of_rejected_program:{sh}"), json!({"program": text}), format!("program {text:?}: state changed although a line does not parse; reply {:?}", messages(&res)));
                    }
                }
            }
        }));
        if let Err(pn) = r {
            run.violation("panic", json!({"program_idx": p}), crate::e1::panic_msg(&pn));
        }
    });
    let _ = done;
    run.put("states", json!(states.lock().unwrap().len()));
    run.put("transitions", json!(transitions.load(std::sync::atomic::Ordering::Relaxed)));
    run.put("traces_validated_against_impl", json!(run.evaluations.load(std::sync::atomic::Ordering::Relaxed)));
    run.put("max_lines", json!(max_lines));
    run.finish()
}

/// Harness-side splitting of a program into logical statements: lines starting with % or // are
/// comments; a non-empty line starting with whitespace continues the previous non-empty line.
pub fn logical_lines(text: &str) -> Vec<String> {
    let mut out: Vec<String> = vec![];
    for line in text.lines() {
        let t = line.trim();
        // line comments are dropped before continuation lines are joined; a block comment is ordinary text
        // at this stage (an indented line after it continues it) and is removed from the joined line later
        if t.starts_with('%') || t.starts_with("//") {
            continue;
        }
        if t.is_empty() {
            continue;
        }
        if line.starts_with(|c: char| c.is_whitespace()) && !out.is_empty() {
            let last = out.last_mut().unwrap();
            last.push(' ');
            last.push_str(t);
        } else {
            out.push(line.to_string());
        }
    }
    out
}

// ---------------------------------------------------------------------------
// C32: relations are sets; write reports are accurate

#[derive(Clone, Debug)]
enum K32 {
    Ins(Vec<(i64, i64)>),
    Del(Vec<(i64, i64)>),
    CondDel,
    InsF1,
    CondDelF,
    Update,
}
#[derive(Clone, Debug)]
struct Op32 {
    name: String,
    text: String,
    kind: K32,
}

fn tuples_text(ts: &[(i64, i64)]) -> String {
    if ts.len() == 1 {
        format!("e({}, {})", ts[0].0, ts[0].1)
    } else {
        format!("e[{}]", ts.iter().map(|(a, b)| format!("({a}, {b})")).collect::<Vec<_>>().join(", "))
    }
}
fn op_ins(ts: &[(i64, i64)]) -> Op32 {
    Op32 { name: format!("ins{ts:?}"), text: format!("+{}", tuples_text(ts)), kind: K32::Ins(ts.to_vec()) }
}
fn op_del(ts: &[(i64, i64)]) -> Op32 {
    Op32 { name: format!("del{ts:?}"), text: format!("-{}", tuples_text(ts)), kind: K32::Del(ts.to_vec()) }
}
fn ops_special() -> Vec<Op32> {
    vec![
        Op32 { name: "cond_del".into(), text: "-e(X, Y) <- e(X, Y), X < 2".into(), kind: K32::CondDel },
        Op32 { name: "insf1".into(), text: "+f(1)".into(), kind: K32::InsF1 },
        Op32 { name: "cond_del_f".into(), text: "-e(X, 2) <- f(X)".into(), kind: K32::CondDelF },
        Op32 { name: "update".into(), text: "-e(X, Y), +e(X, 5) <- e(X, Y), Y < 3".into(), kind: K32::Update },
    ]
}
/// narrow alphabet (explored deep)
fn c32_narrow() -> Vec<Op32> {
    let mut v = vec![op_ins(&[(1, 2)]), op_ins(&[(1, 2), (1, 2), (3, 4)]), op_del(&[(1, 2)]), op_del(&[(1, 2), (5, 6)]), op_ins(&[(1, 5)])];
    v.extend(ops_special());
    v
}
/// wide alphabet (explored shallow): EVERY bulk insert of 1..3 tuples and every bulk delete of 1..2 tuples over the
/// tuple domain, i.e. every in-batch duplicate pattern (adjacent, non-adjacent, with stored / absent tuples)
fn c32_wide() -> Vec<Op32> {
    let dom = [(1i64, 2i64), (3, 4), (1, 5)];
    let ddom = [(1i64, 2i64), (3, 4), (1, 5), (5, 6)];
    let mut v = vec![];
    for a in dom {
        v.push(op_ins(&[a]));
        for b in dom {
            v.push(op_ins(&[a, b]));
            for c in dom {
                v.push(op_ins(&[a, b, c]));
            }
        }
    }
    for a in ddom {
        v.push(op_del(&[a]));
        for b in ddom {
            v.push(op_del(&[a, b]));
        }
    }
    v.extend(ops_special());
    v
}

#[derive(Clone, Default, Debug)]
struct M32 {
    e: BTreeSet<(i64, i64)>,
    f: BTreeSet<i64>,
}

/// Apply op to the model; return the numbers the reply must report and the reply's leading word.
fn m32_step(m: &mut M32, op: &K32) -> (Option<(usize, usize)>, &'static str) {
    match op {
        K32::Ins(ts) => {
            let n = ts.iter().filter(|t| m.e.insert(**t)).count();
            (Some((n, 0)), "Inserted")
        }
        K32::Del(ts) => {
            let n = ts.iter().filter(|t| m.e.remove(*t)).count();
            (Some((n, 0)), "Deleted")
        }
        K32::CondDel => {
            let victims: Vec<(i64, i64)> = m.e.iter().filter(|(x, _)| *x < 2).cloned().collect();
            for v in &victims {
                m.e.remove(v);
            }
            (Some((victims.len(), 0)), "Conditional delete")
        }
        K32::InsF1 => {
            let n = m.f.insert(1) as usize;
            (Some((n, 0)), "Inserted")
        }
        K32::CondDelF => {
            let victims: Vec<(i64, i64)> = m.e.iter().filter(|(x, y)| *y == 2 && m.f.contains(x)).cloned().collect();
            for v in &victims {
                m.e.remove(v);
            }
            (Some((victims.len(), 0)), "Conditional delete")
        }
        K32::Update => {
            // matched bindings: (X,Y) in e with Y<3; delete e(X,Y), insert e(X,5)
            let matched: Vec<(i64, i64)> = m.e.iter().filter(|(_, y)| *y < 3).cloned().collect();
            let mut deleted = 0;
            let mut inserted = 0;
            for (x, y) in &matched {
                if m.e.remove(&(*x, *y)) {
                    deleted += 1;
                }
            }
            for (x, _) in &matched {
                if m.e.insert((*x, 5)) {
                    inserted += 1;
                }
            }
            (Some((deleted, inserted)), "Update")
        }
    }
}

fn first_numbers(msg: &str) -> Vec<usize> {
    let mut out = vec![];
    let mut cur = String::new();
    let mut in_quote = false;
    for c in msg.chars() {
        if c == '\'' {
            in_quote = !in_quote;
        }
        if c.is_ascii_digit() && !in_quote {
            cur.push(c);
        } else if !cur.is_empty() {
            out.push(cur.parse().unwrap_or(0));
            cur.clear();
        }
    }
    if !cur.is_empty() {
        out.push(cur.parse().unwrap_or(0));
    }
    out
}

fn op_class(o: &Op32) -> &'static str {
    match &o.kind {
        K32::Ins(ts) if ts.len() == 1 => "single_insert",
        K32::Ins(ts) => {
            let set: BTreeSet<&(i64, i64)> = ts.iter().collect();
            if set.len() == ts.len() {
                "bulk_insert"
            } else {
                "bulk_insert_with_in_batch_duplicate"
            }
        }
        K32::Del(ts) if ts.len() == 1 => "single_delete",
        K32::Del(_) => "bulk_delete",
        K32::CondDel | K32::CondDelF => "conditional_delete",
        K32::InsF1 => "single_insert",
        K32::Update => "update",
    }
}

fn c32_one(alpha: &[Op32], h: &[usize]) -> Option<(String, String)> {
    let env = Env::new("c32");
    env.create_kg("A");
    let mut m = M32::default();
    let names: Vec<&str> = h.iter().map(|i| alpha[*i].text.as_str()).collect();
    for (step, i) in h.iter().enumerate() {
        let op = &alpha[*i];
        let (name, text) = (op_class(op), op.text.as_str());
        let res = env.query_program(Some("A"), text);
        let (expect, word) = m32_step(&mut m, &op.kind);
        let msgs = messages(&res);
        if res.is_err() {
            return Some((format!("request_failed:{name}"), format!("history {names:?} step {step}: {msgs:?}")));
        }
        // report accuracy
        if let Some((a, b)) = expect {
            let line = msgs.iter().find(|s| s.starts_with(word));
            match line {
                None => return Some((format!("no_report:{name}"), format!("history {names:?} step {step}: reply {msgs:?} has no '{word}' line"))),
                Some(line) => {
                    let nums = first_numbers(line);
                    let ok = if word == "Update" { nums.len() >= 2 && nums[0] == a && nums[1] == b } else { !nums.is_empty() && nums[0] == a };
                    if !ok {
                        return Some((format!("wrong_report:{name}"), format!("history {names:?} step {step} ({text}): reply {line:?} but the set model changed by {a}{}", if word == "Update" { format!(" deleted, {b} inserted") } else { String::new() })));
                    }
                }
            }
        }
        // contents
        let got_e: Vec<String> = {
            let s = env.handler.get_storage();
            let snap = s.get_snapshot_for("A").unwrap();
            snap.input_tuples.get("e").map(|v| v.iter().map(|t| t.to_string()).collect()).unwrap_or_default()
        };
        let set: BTreeSet<&String> = got_e.iter().collect();
        if set.len() != got_e.len() {
            return Some((format!("duplicate_row_stored:{name}"), format!("history {names:?} step {step}: relation e holds {got_e:?}")));
        }
        let want: BTreeSet<String> = m.e.iter().map(|(x, y)| format!("({x}, {y})")).collect();
        let have: BTreeSet<String> = got_e.iter().cloned().collect();
        if want != have {
            return Some((format!("contents_differ_from_set_model:{name}"), format!("history {names:?} step {step} ({text}): stored {have:?} but set model {want:?}")));
        }
        // the query path must agree and be duplicate free
        let q = env.query_program(Some("A"), "?e(X, Y)");
        if let Ok(qr) = &q {
            if qr.schema.len() == 2 {
                let rows: Vec<String> = qr.rows.iter().map(|r| format!("{:?}", r.values)).collect();
                let rs: BTreeSet<&String> = rows.iter().collect();
                if rs.len() != rows.len() || rows.len() != m.e.len() {
                    return Some((format!("query_rows_differ:{name}"), format!("history {names:?} step {step}: ?e returned {rows:?}, model has {} rows", m.e.len())));
                }
            }
        }
    }
    None
}

fn all_histories(n: usize, max_len: usize) -> Vec<Vec<usize>> {
    let mut hist: Vec<Vec<usize>> = vec![];
    let mut level: Vec<Vec<usize>> = vec![vec![]];
    for _ in 0..max_len {
        let mut nx = vec![];
        for p in &level {
            for i in 0..n {
                let mut q = p.clone();
                q.push(i);
                nx.push(q);
            }
        }
        hist.extend(nx.iter().cloned());
        level = nx;
    }
    hist
}

pub fn c32(args: &Args) -> i32 {
    quiet_panics();
    let (narrow, wide) = (c32_narrow(), c32_wide());
    if let Some(p) = &args.replay {
        let j = read_replay(p);
        let h: Vec<usize> = serde_json::from_value(j["case"]["history_idx"].clone()).expect("history_idx");
        let alpha = if j["case"]["leg"] == "wide" { &wide } else { &narrow };
        let r = c32_one(alpha, &h);
        if let Some((c, d)) = &r {
            println!("class={c} {d}\nVIOLATION property=C32 replay={}", p.display());
        }
        return r.is_some() as i32;
    }
    let run = Run::new(args, "model_checking", 55.0, 1500.0);
    let (deep, shallow) = if run.quick() { (4, 2) } else { (6, 3) };
    run.set_rule("two legs, each ALL histories up to its depth bound, one request per step through Handler::query_program on a fresh KG: (narrow, deep) 9 write statements (single insert, bulk insert with in-batch duplicate, single delete, bulk delete with absent tuple, two conditional deletes, update, helper inserts); (wide, shallow) 63 statements: EVERY bulk insert of 1..3 tuples and EVERY bulk delete of 1..2 tuples over a 3(+1 absent)-tuple domain (all in-batch duplicate patterns) plus the conditional deletes and the update. After every step the stored relation and the ?e answer must equal the set model without duplicates, and the numbers in the Inserted/Deleted/Conditional delete/Update reply must equal the model's change. non-trivial = all histories (every symbol is a write)");
    let legs: Vec<(&str, &Vec<Op32>, Vec<Vec<usize>>)> = vec![("narrow", &narrow, all_histories(narrow.len(), deep)), ("wide", &wide, all_histories(wide.len(), shallow))];
    let states = std::sync::Mutex::new(BTreeSet::new());
    let mut transitions = 0u64;
    let mut traces = 0u64;
    for (leg, alpha, hist) in &legs {
        run.put(&format!("histories_{leg}"), json!(hist.len()));
        run.put(&format!("alphabet_{leg}"), json!(alpha.len()));
        let done = run.par_for(hist.len(), threads(), |i, l| {
            let h = &hist[i];
            l.eval();
            l.nontrivial(fnv(format!("{leg}{h:?}").as_bytes()));
            let r = catch_unwind(AssertUnwindSafe(|| c32_one(alpha, h)));
            match r {
                Ok(None) => {
                    let mut m = M32::default();
                    for x in h {
                        m32_step(&mut m, &alpha[*x].kind);
                    }
                    let k = fnv(format!("{m:?}").as_bytes());
                    l.outcome(k);
                    states.lock().unwrap().insert(k);
                    if run.want_sample() && i % 211 == 0 {
                        run.sample(json!({"leg": leg, "history": h.iter().map(|x| alpha[*x].text.clone()).collect::<Vec<_>>()}));
                    }
                }
                Ok(Some((class, detail))) => run.violation(&class, json!({"leg": leg, "history_idx": h, "history": h.iter().map(|x| alpha[*x].text.clone()).collect::<Vec<_>>()}), detail),
                Err(pn) => run.violation("panic", json!({"leg": leg, "history_idx": h}), crate::e1::panic_msg(&pn)),
            }
        });
        transitions += hist.iter().take(done).map(|h| h.len() as u64).sum::<u64>();
        traces += done as u64;
    }
    run.put("states", json!(states.lock().unwrap().len()));
    run.put("transitions", json!(transitions));
    run.put("traces_validated_against_impl", json!(traces));
    run.put("depth_bound_narrow", json!(deep));
    run.put("depth_bound_wide", json!(shallow));
    run.finish()
}

// ---------------------------------------------------------------------------
// C29: the internal KG is unreachable for non-admins

const SECRET: &str = "SECRETHASHVALUE";

fn c29_env(stray_acl: bool) -> (Env, AuthIdentity, AuthIdentity) {
    let env = Env::new("c29");
    env.create_kg("A");
    env.insert("A", "e", vec![Tuple::new(vec![Value::Int64(1)])]);
    {
        let s = env.handler.get_storage();
        s.create_knowledge_graph(INTERNAL_KG).expect("internal");
    }
    env.insert(INTERNAL_KG, "users", vec![Tuple::new(vec![Value::string("ed"), Value::string(SECRET), Value::string("editor")]), Tuple::new(vec![Value::string("vi"), Value::string(SECRET), Value::string("viewer")])]);
    env.grant("A", "ed", "owner");
    env.grant("A", "vi", "owner");
    if stray_acl {
        // an ACL row naming _internal (only an admin can create one) must not open the system KG either
        env.grant(INTERNAL_KG, "ed", "owner");
        env.grant(INTERNAL_KG, "vi", "editor");
    }
    (env, AuthIdentity { username: "ed".into(), role: Role::Editor }, AuthIdentity { username: "vi".into(), role: Role::Viewer })
}

pub fn c29(args: &Args) -> i32 {
    quiet_panics();
    let run = Run::new(args, "model_checking", 55.0, 900.0);
    run.set_rule("programs of 1..3 lines naming the internal KG in every position (target-KG argument, .kg use/create/drop _internal, after comments / other statements / .kg use A, reads, writes, rule definitions, .rel commands), by an editor and a viewer identity (owner ACL on A; each case also with a stray ACL row naming _internal), with no session, with a session bound to A, with a session bound to A while the request names _internal as its target KG, and with session creation directly on _internal; after each request: _internal's facts/rules/schemas unchanged, no reply contains the stored credential string, no session bound to _internal, _internal still listed. non-trivial = all cases");
    let prefixes: Vec<&str> = vec!["", "// c", "?e(X)", ".kg use A", "+e(5)", "/* c */", "% c"];
    let enter: Vec<&str> = vec!["", ".kg use _internal", ".kg create _internal", ".kg drop _internal"];
    let payload: Vec<&str> = vec![
        "",
        "?users(X, Y, Z)",
        "?kg_acls(X, Y, Z)",
        "+users(\"h\", \"x\", \"admin\")",
        "-users(\"ed\", \"SECRETHASHVALUE\", \"editor\")",
        "+kg_acls(\"A\", \"h\", \"owner\")",
        ".rel",
        ".rel users",
        ".rel drop users",
        "+leak(X, Y, Z) <- users(X, Y, Z)",
        "leak2(X, Y) <- users(X, Y, Z)\n?leak2(X, Y)",
        ".rule",
        ".kg",
        ".kg acl list _internal",
        ".kg acl grant _internal vi owner",
        ".why ?users(X, Y, Z)",
        ".clear prefix us",
    ];
    let mut cases: Vec<(String, u8, u8, u8)> = vec![]; // (program, kg_arg: 0=A 1=_internal 2=None-with-session 3=_internal-with-session-on-A, identity, session mode)
    for pre in &prefixes {
        for en in &enter {
            for pay in &payload {
                let lines: Vec<&str> = [*pre, *en, *pay].into_iter().filter(|s| !s.is_empty()).collect();
                if lines.is_empty() {
                    continue;
                }
                let text = lines.join("\n");
                if !text.contains("_internal") && !text.contains("users") && !text.contains("kg_acls") && !text.contains(".rel") {
                    // still meaningful with kg_arg=_internal
                }
                for ident in 0..2u8 {
                    for kg_arg in 0..4u8 {
                        cases.push((text.clone(), kg_arg, ident, 0));
                        // with a stray ACL row on _internal; ACL-management commands aimed at _internal are
                        // excluded there (they are ACL administration of a KG the row makes the caller own)
                        if !text.contains(".kg acl") {
                            cases.push((text.clone(), kg_arg, ident, 1));
                        }
                    }
                }
            }
        }
    }
    cases.dedup();
    run.put("cases", json!(cases.len()));
    let states = std::sync::Mutex::new(BTreeSet::new());
    let done = run.par_for(cases.len(), threads(), |i, l| {
        let (text, kg_arg, ident, stray) = &cases[i];
        l.eval();
        l.nontrivial(i as u64);
        let r = catch_unwind(AssertUnwindSafe(|| -> Vec<(String, String)> {
            let (env, ed, vi) = c29_env(*stray == 1);
            let id = if *ident == 0 { &ed } else { &vi };
            let before = env.kg_state(INTERNAL_KG);
            let mut out = vec![];
            let mut sid: Option<String> = None;
            let res = match kg_arg {
                0 => env.run(None, Some("A"), text, Some(id)),
                1 => env.run(None, Some(INTERNAL_KG), text, Some(id)),
                3 => {
                    // a live session on the caller's own KG AND the internal KG named as the request's target
                    sid = env.handler.create_session_with_auth("A", id).ok();
                    env.run(sid.as_ref(), Some(INTERNAL_KG), text, Some(id))
                }
                _ => {
                    // session path: try to bind directly to _internal first, else to A
                    match env.handler.create_session_with_auth(INTERNAL_KG, id) {
                        Ok(s) => {
                            out.push(("session_created_on_internal".to_string(), format!("create_session_with_auth(_internal) succeeded for {}", id.username)));
                            sid = Some(s);
                        }
                        Err(_) => sid = env.handler.create_session_with_auth("A", id).ok(),
                    }
                    env.run(sid.as_ref(), None, text, Some(id))
                }
            };
            let after = env.kg_state(INTERNAL_KG);
            let where_ = ["kg=A", "kg=_internal", "session", "session_on_A_and_kg=_internal"][*kg_arg as usize];
            let pos = if text.lines().count() > 1 { "multi_line" } else { "single_line" };
            if before != after {
                out.push((format!("internal_kg_modified:{where_}:{pos}"), format!("program {text:?} by {} via {where_}: _internal changed from {before:?} to {after:?}", id.username)));
            }
            let reply = format!("{:?}", res.as_ref().map(|q| (&q.rows, &q.schema)).map_err(|e| e.clone()));
            if reply.contains(SECRET) {
                out.push((format!("internal_kg_read:{where_}:{pos}"), format!("program {text:?} by {} via {where_}: reply leaks a stored credential: {}", id.username, truncate(&reply, 300))));
            }
            if let Some(s) = &sid {
                if env.handler.session_manager().session_kg(s).ok().as_deref() == Some(INTERNAL_KG) {
                    out.push((format!("session_bound_to_internal:{pos}"), format!("program {text:?} by {}: session ends bound to _internal", id.username)));
                }
            }
            let listed = env.handler.get_storage().list_knowledge_graphs().iter().any(|k| k == INTERNAL_KG);
            if !listed {
                out.push((format!("internal_kg_dropped:{where_}:{pos}"), format!("program {text:?} by {}: _internal no longer exists", id.username)));
            }
            states.lock().unwrap().insert((res.is_ok(), *kg_arg, *ident));
            if run.want_sample() && i % 389 == 0 {
                run.sample(json!({"program": text, "via": where_, "identity": id.username, "reply": truncate(&reply, 200)}));
            }
            out
        }));
        match r {
            Ok(v) => {
                l.outcome(v.len() as u64);
                for (c, d) in v {
                    run.violation(&c, json!({"program": text, "kg_arg": kg_arg, "identity": ident}), d);
                }
            }
            Err(pn) => run.violation("panic", json!({"program": text}), crate::e1::panic_msg(&pn)),
        }
    });
    run.put("states", json!(states.lock().unwrap().len()));
    run.put("transitions", json!(done));
    run.put("traces_validated_against_impl", json!(done));
    run.finish()
}

// ---------------------------------------------------------------------------
// C33: declared schemas are enforced

const C33_TYPES: [&str; 9] = ["int", "float", "string", "bool", "vector", "any", "symbol", "timestamp", "vector2"];
const C33_VALUES: [(&str, &str); 7] = [("int", "1"), ("float", "1.5"), ("string", "\"a\""), ("bool", "true"), ("vector", "[1.0, 2.0]"), ("int", "7"), ("vector3", "[1.0, 2.0, 3.0]")];

/// Harness's own conformance table: Some(true) must be accepted, Some(false) must be rejected, None not asserted.
fn conforms(ty: &str, vkind: &str) -> Option<bool> {
    match (ty, vkind) {
        ("any", _) => Some(true),
        ("int", "int") | ("float", "float") | ("string", "string") | ("bool", "bool") | ("vector", "vector") | ("vector", "vector3") | ("vector2", "vector") => Some(true),
        ("vector2", "vector3") => Some(false), // dimension is part of the declared type
        ("float", "int") => None,       // numeric widening: not settled by the property
        ("symbol", "string") => None,   // symbols vs strings: not settled
        ("timestamp", "int") => None,   // timestamps are integers on the wire
        ("symbol", _) | ("timestamp", _) => Some(false),
        _ => Some(false),
    }
}

fn c33_stored(env: &Env, rel: &str) -> Vec<String> {
    let s = env.handler.get_storage();
    let snap = s.get_snapshot_for("A").unwrap();
    let mut v: Vec<String> = snap.input_tuples.get(rel).map(|v| v.iter().map(|t| t.to_string()).collect()).unwrap_or_default();
    v.sort();
    v
}

fn lit_value(i: usize) -> Value {
    match i {
        0 => Value::Int64(1),
        1 => Value::Float64(1.5),
        2 => Value::string("a"),
        3 => Value::Bool(true),
        4 => Value::vector(vec![1.0, 2.0]),
        6 => Value::vector(vec![1.0, 2.0, 3.0]),
        _ => Value::Int64(7),
    }
}

fn schema_type(t: &str) -> inputlayer::schema::SchemaType {
    use inputlayer::schema::SchemaType as S;
    match t {
        "int" => S::Int,
        "float" => S::Float,
        "string" => S::String,
        "bool" => S::Bool,
        "vector" => S::Vector { dim: None },
        "vector2" => S::Vector { dim: Some(2) },
        "any" => S::Any,
        "symbol" => S::Symbol,
        _ => S::Timestamp,
    }
}

/// Declare the persistent schema of relation r exactly as the handler does after parsing `+r(c0: t, ..)`.
fn declare(env: &Env, tys: &[&'static str]) -> Result<(), String> {
    let mut rs = inputlayer::schema::RelationSchema::new("r");
    for (k, t) in tys.iter().enumerate() {
        rs = rs.with_column(inputlayer::schema::ColumnSchema::new(format!("c{k}"), schema_type(t)));
    }
    env.handler.get_storage().register_or_update_schema_in("A", rs).map_err(|e| e.to_string())
}

pub fn c33(args: &Args) -> i32 {
    quiet_panics();
    let run = Run::new(args, "model_checking", 55.0, 900.0);
    run.set_rule("schemas over every declared type (int, float, string, bool, vector, vector(2), any, symbol, timestamp) in arity 1 and 2 x inserts of 1-2 tuples over the literal pool {1, 1.5, \"a\", true, [1.0,2.0], 7, [1.0,2.0,3.0]} through the persistent path (+r(..), +r[..] via Handler::query_program) in the orders schema->insert->insert and insert->schema, and through the session insert path (Handler::session_insert_ephemeral); schemas are declared through StorageEngine::register_or_update_schema_in, the call the handler makes for `+r(c: t)`. Oracle: harness conformance table (Some(true) must be stored, Some(false) must reject the whole batch, ambiguous pairs not asserted); after every step every stored tuple conforms to the declared schema. non-trivial = cases containing at least one definitely non-conforming value");
    // build cases
    #[derive(Clone, Debug)]
    struct Case {
        tys: Vec<&'static str>,
        batch1: Vec<Vec<usize>>, // tuples as value indexes
        batch2: Vec<Vec<usize>>,
        mode: u8, // 0 schema-first persistent, 1 data-first, 2 session path
    }
    let mut cases: Vec<Case> = vec![];
    let nv = C33_VALUES.len();
    for t in C33_TYPES {
        for a in 0..nv {
            for mode in 0..3u8 {
                cases.push(Case { tys: vec![t], batch1: vec![vec![a]], batch2: vec![], mode });
            }
            for b in 0..nv {
                // two tuples in one batch, and as two requests
                cases.push(Case { tys: vec![t], batch1: vec![vec![a], vec![b]], batch2: vec![], mode: 0 });
                cases.push(Case { tys: vec![t], batch1: vec![vec![a]], batch2: vec![vec![b]], mode: 0 });
                cases.push(Case { tys: vec![t], batch1: vec![vec![a], vec![b]], batch2: vec![], mode: 1 });
            }
        }
    }
    for t1 in ["int", "string", "float", "any"] {
        for t2 in ["int", "bool", "vector", "vector2"] {
            for a in 0..nv {
                for b in 0..nv {
                    cases.push(Case { tys: vec![t1, t2], batch1: vec![vec![a, b]], batch2: vec![], mode: 0 });
                    cases.push(Case { tys: vec![t1, t2], batch1: vec![vec![0, 3], vec![a, b]], batch2: vec![], mode: 0 });
                }
            }
        }
    }
    run.put("cases", json!(cases.len()));
    let fmt_tuple = |t: &Vec<usize>| format!("({})", t.iter().map(|i| C33_VALUES[*i].1).collect::<Vec<_>>().join(", "));
    let fmt_batch = |rel: &str, b: &Vec<Vec<usize>>, plus: bool| {
        let p = if plus { "+" } else { "" };
        if b.len() == 1 {
            format!("{p}{rel}{}", fmt_tuple(&b[0]))
        } else {
            format!("{p}{rel}[{}]", b.iter().map(fmt_tuple).collect::<Vec<_>>().join(", "))
        }
    };
    let tuple_conf = |tys: &Vec<&'static str>, t: &Vec<usize>| -> Option<bool> {
        if tys.len() != t.len() {
            return Some(false);
        }
        let mut all = Some(true);
        for (ty, v) in tys.iter().zip(t) {
            match conforms(ty, C33_VALUES[*v].0) {
                Some(false) => return Some(false),
                None => all = None,
                Some(true) => {}
            }
        }
        all
    };
    let batch_conf = |tys: &Vec<&'static str>, b: &Vec<Vec<usize>>| -> Option<bool> {
        let mut all = Some(true);
        for t in b {
            match tuple_conf(tys, t) {
                Some(false) => return Some(false),
                None => all = None,
                Some(true) => {}
            }
        }
        all
    };
    let states = std::sync::Mutex::new(BTreeSet::new());
    let done = run.par_for(cases.len(), threads(), |i, l| {
        let c = &cases[i];
        l.eval();
        let has_bad = batch_conf(&c.tys, &c.batch1) == Some(false) || (!c.batch2.is_empty() && batch_conf(&c.tys, &c.batch2) == Some(false));
        if has_bad {
            l.nontrivial(i as u64);
        }
        let decl = format!("r({})", c.tys.iter().enumerate().map(|(k, t)| format!("c{k}: {t}")).collect::<Vec<_>>().join(", "));
        let r = catch_unwind(AssertUnwindSafe(|| -> Vec<(String, String)> {
            let env = Env::new("c33");
            env.create_kg("A");
            let mut out = vec![];
            let tag = c.tys.join("_");
            match c.mode {
                0 => {
                    if let Err(e) = declare(&env, &c.tys) {
                        return vec![(format!("schema_declaration_refused:{tag}"), format!("{decl}: {e}"))];
                    }
                    let mut model: BTreeSet<Vec<usize>> = BTreeSet::new();
                    for b in [&c.batch1, &c.batch2] {
                        if b.is_empty() {
                            continue;
                        }
                        let text = fmt_batch("r", b, true);
                        let before = c33_stored(&env, "r");
                        let res = env.query_program(Some("A"), &text);
                        let after = c33_stored(&env, "r");
                        match batch_conf(&c.tys, b) {
                            Some(false) => {
                                if before != after {
                                    out.push((format!("nonconforming_batch_stored:{tag}"), format!("schema +{decl}; {text}: stored {after:?} (before {before:?}); reply {:?}", messages(&res))));
                                }
                            }
                            Some(true) => {
                                for t in b {
                                    model.insert(t.clone());
                                }
                                if after.len() != model.len() {
                                    out.push((format!("conforming_batch_refused:{tag}"), format!("schema +{decl}; {text}: stored {after:?} (before {before:?}); reply {:?}", messages(&res))));
                                }
                            }
                            None => {
                                if after.len() > before.len() {
                                    for t in b {
                                        model.insert(t.clone());
                                    }
                                }
                            }
                        }
                    }
                }
                1 => {
                    let text = fmt_batch("r", &c.batch1, true);
                    let r1 = env.query_program(Some("A"), &text);
                    let stored = c33_stored(&env, "r");
                    if stored.is_empty() {
                        return vec![];
                    }
                    let r2: Result<QueryResult, String> = declare(&env, &c.tys).map(|_| QueryResult { rows: vec![], schema: vec![], total_count: 0, truncated: false, execution_time_ms: 0, metadata: None, switched_kg: None, proof_trees: None, timing_breakdown: None });
                    let declared = env.handler.get_storage().has_schema_in("A", "r").unwrap_or(false);
                    if declared && batch_conf(&c.tys, &c.batch1) == Some(false) {
                        let still = c33_stored(&env, "r");
                        if !still.is_empty() {
                            out.push((format!("schema_declared_over_nonconforming_data:{tag}"), format!("{text} then +{decl}: schema registered while relation holds {still:?}; replies {:?} {:?}", messages(&r1), messages(&r2))));
                        }
                    }
                }
                _ => {
                    // session insert path: schema declared, then Handler::session_insert_ephemeral on a session bound to A
                    if let Err(e) = declare(&env, &c.tys) {
                        return vec![(format!("schema_declaration_refused:{tag}"), format!("{decl}: {e}"))];
                    }
                    let sid = env.handler.create_session("A").expect("session");
                    let tuples: Vec<Tuple> = c.batch1.iter().map(|t| Tuple::new(t.iter().map(|i| lit_value(*i)).collect())).collect();
                    let res = env.handler.session_insert_ephemeral(&sid, "r", tuples);
                    let stored: usize = env.handler.session_manager().with_session(&sid, |s| s.ephemeral_facts().get("r").map_or(0, Vec::len)).unwrap_or(0);
                    match batch_conf(&c.tys, &c.batch1) {
                        Some(false) if res.is_ok() || stored > 0 => out.push((format!("session_nonconforming_batch_stored:{tag}"), format!("schema {decl}; session insert {}: result {res:?}, session holds {stored} fact(s)", fmt_batch("r", &c.batch1, false)))),
                        Some(true) if res.is_err() || stored == 0 => out.push((format!("session_conforming_batch_refused:{tag}"), format!("schema {decl}; session insert {}: result {res:?}, session holds {stored} fact(s)", fmt_batch("r", &c.batch1, false)))),
                        _ => {}
                    }
                }
            }
            out
        }));
        match r {
            Ok(v) => {
                l.outcome(v.len() as u64 + 10 * c.mode as u64);
                states.lock().unwrap().insert((c.tys.clone(), c.mode, has_bad));
                if run.want_sample() && i % 173 == 0 {
                    run.sample(json!({"schema": decl, "batch1": fmt_batch("r", &c.batch1, c.mode != 2), "mode": (["schema-first", "data-first", "session"][c.mode as usize])}));
                }
                for (cl, d) in v {
                    run.violation(&cl, json!({"schema": decl, "batch1": c.batch1, "batch2": c.batch2, "mode": c.mode}), d);
                }
            }
            Err(pn) => run.violation("panic", json!({"schema": decl}), crate::e1::panic_msg(&pn)),
        }
    });
    run.put("states", json!(states.lock().unwrap().len()));
    run.put("transitions", json!(done * 3));
    run.put("traces_validated_against_impl", json!(done));
    run.finish()
}
