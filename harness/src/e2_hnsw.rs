//! E2 HIST on the real HnswIndex (through the `Index` trait, `HnswIndex::save/load` and
//! `IndexManager::save_indexes/load_indexes`): C24 (search validity) and C25 (state follows history, persists).

use crate::common::*;
use inputlayer::hnsw_index::HnswIndex;
use inputlayer::index_manager::{DistanceMetric, HnswConfig, Index, IndexManager, IndexType, RegisteredIndex};
use serde::{Deserialize, Serialize};
use serde_json::json;
use std::collections::{BTreeMap, BTreeSet};
use std::panic::{catch_unwind, AssertUnwindSafe};

#[derive(Clone, Copy, Debug, PartialEq, Eq, Hash, PartialOrd, Ord, Serialize, Deserialize)]
pub enum HOp {
    Ins(usize, usize), // id, vector index
    Del(usize),
    Rebuild,      // Index::rebuild with the live vectors
    Batch(usize), // insert_batch of fixed set #n
    SaveLoad,     // HnswIndex::save + load
    MgrSaveLoad,  // through IndexManager::save_indexes / load_indexes
}

const METRICS: [DistanceMetric; 4] = [DistanceMetric::Euclidean, DistanceMetric::Cosine, DistanceMetric::DotProduct, DistanceMetric::Manhattan];

pub fn vec_pool() -> Vec<Vec<f32>> {
    // index 3 equals the vector four ids get from fixed batch #0 (re-insert of an identical vector)
    vec![vec![1.0, 0.0], vec![0.0, 2.0], vec![-1.0, -1.0], vec![1.0, 1.0], vec![0.0, 0.0], vec![1e-12, 0.0]]
}
/// fixed batches: #0 five points (four equal) that separate L1 from L2 order for query (-1,-1); #1 duplicates of one vector
pub fn batches() -> Vec<Vec<(usize, Vec<f32>)>> {
    vec![
        vec![(1, vec![1.0, 1.0]), (2, vec![1.0, 1.0]), (3, vec![1.0, 1.0]), (4, vec![1.0, 1.0]), (5, vec![2.0, -1.0])],
        vec![(2, vec![0.0, 2.0]), (3, vec![0.0, 2.0])],
    ]
}
pub fn query_pool() -> Vec<Vec<f32>> {
    vec![vec![-1.0, -1.0], vec![1.0, 0.0], vec![0.5, 0.5], vec![1e-12, 0.0], vec![0.0, 3.0]]
}

fn norm(v: &[f32]) -> f64 {
    v.iter().map(|x| (*x as f64) * (*x as f64)).sum::<f64>().sqrt()
}
/// The metric value as the user guide defines it, computed in f64 from the original vectors.
/// None = undefined / not asserted (zero-norm input to an angular metric; dot product on non-unit inputs).
fn true_distance(m: DistanceMetric, q: &[f32], v: &[f32]) -> Option<f64> {
    match m {
        DistanceMetric::Euclidean => Some(q.iter().zip(v).map(|(a, b)| ((*a as f64) - (*b as f64)).powi(2)).sum::<f64>().sqrt()),
        DistanceMetric::Manhattan => Some(q.iter().zip(v).map(|(a, b)| ((*a as f64) - (*b as f64)).abs()).sum::<f64>()),
        DistanceMetric::Cosine => {
            let (nq, nv) = (norm(q), norm(v));
            if nq == 0.0 || nv == 0.0 {
                return None;
            }
            let dot: f64 = q.iter().zip(v).map(|(a, b)| (*a as f64) * (*b as f64)).sum();
            Some(1.0 - (dot / (nq * nv)).clamp(-1.0, 1.0))
        }
        DistanceMetric::DotProduct => {
            let (nq, nv) = (norm(q), norm(v));
            if (nq - 1.0).abs() > 1e-6 || (nv - 1.0).abs() > 1e-6 {
                return None; // the index normalises; the exact-value clause is asserted on unit-norm inputs only
            }
            let dot: f64 = q.iter().zip(v).map(|(a, b)| (*a as f64) * (*b as f64)).sum();
            Some(-dot)
        }
    }
}
/// Ranking key used for the "true k nearest" clause (defined for every input pair the index accepts).
fn rank_distance(m: DistanceMetric, q: &[f32], v: &[f32]) -> Option<f64> {
    match m {
        DistanceMetric::DotProduct | DistanceMetric::Cosine => {
            let (nq, nv) = (norm(q), norm(v));
            if nq == 0.0 || nv == 0.0 {
                return None;
            }
            let dot: f64 = q.iter().zip(v).map(|(a, b)| (*a as f64) * (*b as f64)).sum();
            Some(1.0 - (dot / (nq * nv)).clamp(-1.0, 1.0))
        }
        _ => true_distance(m, q, v),
    }
}
fn approx(a: f64, b: f64) -> bool {
    (a - b).abs() <= 2e-5 + 1e-4 * a.abs().max(b.abs())
}

fn mk_config(metric: DistanceMetric) -> HnswConfig {
    HnswConfig { m: 8, ef_construction: 50, ef_search: 16, metric }
}

pub struct Subject {
    pub idx: Box<HnswIndex>,
    pub scratch: Scratch,
}

fn op_name(o: HOp) -> String {
    match o {
        HOp::Ins(id, v) => format!("insert({id}, {:?})", vec_pool()[v]),
        HOp::Del(id) => format!("delete({id})"),
        HOp::Rebuild => "rebuild(live)".into(),
        HOp::Batch(b) => format!("insert_batch(#{b})"),
        HOp::SaveLoad => "save+load".into(),
        HOp::MgrSaveLoad => "manager save_indexes+load_indexes".into(),
    }
}
fn hist_str(h: &[HOp]) -> String {
    h.iter().map(|o| op_name(*o)).collect::<Vec<_>>().join("; ")
}

type Model = BTreeMap<usize, Vec<f32>>;

/// Apply one op to subject and model. Err = violation (class, detail).
fn apply(s: &mut Subject, model: &mut Model, o: HOp, metric: DistanceMetric) -> Result<(), (String, String)> {
    match o {
        HOp::Ins(id, vi) => {
            let v = vec_pool()[vi].clone();
            match s.idx.insert(id, &v) {
                Ok(()) => {
                    model.insert(id, v);
                }
                Err(_) => { /* a rejected insert contributes nothing */ }
            }
        }
        HOp::Del(id) => {
            s.idx.delete(id);
            model.remove(&id);
        }
        HOp::Rebuild => {
            let live: Vec<(usize, Vec<f32>)> = model.iter().map(|(k, v)| (*k, v.clone())).collect();
            s.idx.rebuild(&live).map_err(|e| ("state:rebuild_failed".to_string(), e))?;
        }
        HOp::Batch(b) => {
            let set = batches()[b].clone();
            match s.idx.insert_batch(&set) {
                Ok(()) => {
                    for (id, v) in set {
                        model.insert(id, v);
                    }
                }
                Err(e) => return Err(("state:insert_batch_failed".into(), e)),
            }
        }
        HOp::SaveLoad => {
            let dir = s.scratch.path().join("idx");
            s.idx.save(&dir).map_err(|e| ("state:save_failed".to_string(), e))?;
            let loaded = HnswIndex::load(&dir).map_err(|e| ("state:load_failed".to_string(), e))?;
            if loaded.config() != &mk_config(metric) {
                return Err(("state:config_changed_by_save_load".into(), format!("{:?} became {:?}", mk_config(metric), loaded.config())));
            }
            s.idx = Box::new(loaded);
        }
        HOp::MgrSaveLoad => {
            let base = s.scratch.path().join("mgr");
            let _ = std::fs::remove_dir_all(&base);
            let mut mgr = IndexManager::new();
            let reg = RegisteredIndex { name: "ix".into(), relation: "docs".into(), column_idx: 1, column_name: "emb".into(), index_type: IndexType::Hnsw(mk_config(metric)) };
            mgr.register_index(reg).map_err(|e| ("state:register_failed".to_string(), e))?;
            // hand the live index to the manager, save, load into a fresh manager, take it back
            let placeholder = Box::new(HnswIndex::new(mk_config(metric)));
            let live_idx = std::mem::replace(&mut s.idx, placeholder);
            let n = live_idx.len();
            mgr.set_materialized("ix", live_idx, n);
            mgr.save_indexes(&base).map_err(|e| ("state:save_failed".to_string(), e))?;
            let mut mgr2 = IndexManager::new();
            mgr2.load_indexes(&base).map_err(|e| ("state:load_failed".to_string(), e))?;
            let Some(reg2) = mgr2.get_registered("ix") else { return Err(("state:registration_lost_by_save_load".into(), "index ix is not registered after load_indexes".into())) };
            if reg2.index_type != IndexType::Hnsw(mk_config(metric)) || reg2.relation != "docs" || reg2.column_idx != 1 {
                return Err(("state:config_changed_by_save_load".into(), format!("registration after load: {:?} {:?} col {}", reg2.index_type, reg2.relation, reg2.column_idx)));
            }
            // re-load the materialized index from the manager's directory (the manager owns its copy behind an Arc)
            let dir = base.join("indexes").join("ix");
            if !HnswIndex::persisted_exists(&dir) {
                return Err(("state:materialized_index_not_persisted".into(), "save_indexes wrote no index data for a valid materialized index".into()));
            }
            if mgr2.get_materialized("ix").is_none() {
                return Err(("state:materialized_index_not_loaded".into(), "load_indexes did not restore the materialized index".into()));
            }
            let loaded = HnswIndex::load(&dir).map_err(|e| ("state:load_failed".to_string(), e))?;
            if loaded.config() != &mk_config(metric) {
                return Err(("state:config_changed_by_save_load".into(), format!("{:?}", loaded.config())));
            }
            s.idx = Box::new(loaded);
        }
    }
    Ok(())
}

/// All search-validity checks (C24) for the current state. Returns violations (class, detail).
fn check_search(s: &Subject, model: &Model, metric: DistanceMetric, quick: bool) -> Vec<(String, String)> {
    let mut out = vec![];
    let ks: &[usize] = if quick { &[1, 2, 5] } else { &[1, 2, 3, 5, 10] };
    let efs: &[Option<usize>] = &[Some(1), Some(2), None];
    let mname = format!("{metric:?}");
    for q in query_pool() {
        let qzero = norm(&q) == 0.0;
        for &k in ks {
            for &ef in efs {
                let r = s.idx.search(&q, k, ef);
                let ctx = || format!("metric {mname}, live {:?}, search({q:?}, k={k}, ef={ef:?}) = {r:?}", model);
                if r.len() > k {
                    out.push((format!("search:{mname}:more_than_k"), ctx()));
                }
                let ids: BTreeSet<usize> = r.iter().map(|x| x.0).collect();
                if ids.len() != r.len() {
                    out.push((format!("search:{mname}:duplicate_id"), ctx()));
                }
                if let Some(dead) = r.iter().find(|x| !model.contains_key(&x.0)) {
                    out.push((format!("search:{mname}:returns_dead_id"), format!("id {} is not live; {}", dead.0, ctx())));
                    continue;
                }
                if r.windows(2).any(|w| w[0].1 > w[1].1 + 1e-9) || r.iter().any(|x| x.1.is_nan()) {
                    out.push((format!("search:{mname}:not_sorted_by_distance"), ctx()));
                }
                let angular = matches!(metric, DistanceMetric::Cosine | DistanceMetric::DotProduct);
                if angular && qzero {
                    continue;
                }
                for (id, d) in &r {
                    if let Some(t) = true_distance(metric, &q, &model[id]) {
                        if !approx(*d, t) {
                            let tag = if angular && norm(&q) < 1e-6 { "near_zero_query" } else { "ordinary" };
                            out.push((format!("search:{mname}:wrong_distance:{tag}"), format!("id {id}: reported {d}, metric value {t}; {}", ctx())));
                            break;
                        }
                    }
                }
                let ef_eff = ef.unwrap_or(mk_config(metric).ef_search);
                if model.len() <= ef_eff {
                    let want = k.min(model.len());
                    if r.len() != want {
                        out.push((format!("search:{mname}:fewer_than_min_k_live"), format!("expected {want} results; {}", ctx())));
                        continue;
                    }
                    // true k nearest up to ties: the sorted ranking distances of the returned ids must equal the k smallest
                    let mut all: Vec<f64> = model.values().filter_map(|v| rank_distance(metric, &q, v)).collect();
                    if all.len() != model.len() {
                        continue;
                    }
                    all.sort_by(|a, b| a.partial_cmp(b).unwrap());
                    let mut got: Vec<f64> = r.iter().filter_map(|(id, _)| rank_distance(metric, &q, &model[id])).collect();
                    got.sort_by(|a, b| a.partial_cmp(b).unwrap());
                    if got.iter().zip(all.iter()).any(|(g, a)| !approx(*g, *a)) {
                        let tag = if angular && norm(&q) < 1e-6 { "near_zero_query" } else { "ordinary" };
                        out.push((format!("search:{mname}:not_the_true_nearest:{tag}"), format!("true nearest distances {:?}, returned ids have {:?}; {}", &all[..want], got, ctx())));
                    }
                }
            }
        }
    }
    out
}

/// State checks (C25).
fn check_state(s: &Subject, model: &Model, metric: DistanceMetric) -> Vec<(String, String)> {
    let mut out = vec![];
    let mname = format!("{metric:?}");
    // exactly the live identifiers with their latest vectors, observed through an exhaustive search
    let q = vec![0.5f32, 0.5];
    let r = s.idx.search(&q, 16, Some(64));
    let got: BTreeSet<usize> = r.iter().map(|x| x.0).collect();
    let want: BTreeSet<usize> = model.keys().copied().collect();
    if got != want {
        let mode = if got.difference(&want).next().is_some() { "dead_id_visible" } else { "live_id_invisible" };
        out.push((format!("state:{mname}:{mode}"), format!("live ids {want:?} but an exhaustive search (k=16, ef=64) sees {got:?}")));
    } else {
        for (id, d) in &r {
            if let Some(t) = true_distance(metric, &q, &model[id]) {
                if !approx(*d, t) {
                    out.push((format!("state:{mname}:stale_vector"), format!("id {id}: distance {d} does not correspond to its latest vector {:?} (expected {t})", model[id])));
                    break;
                }
            }
        }
    }
    let (len, tomb) = (s.idx.len(), s.idx.tombstone_count());
    if len < tomb || len - tomb != model.len() {
        out.push((format!("state:{mname}:len_minus_tombstones_differs_from_live"), format!("len()={len} tombstone_count()={tomb} but {} identifiers are live", model.len())));
    }
    if s.idx.metric() != metric {
        out.push((format!("state:{mname}:metric_changed"), format!("metric() = {:?}", s.idx.metric())));
    }
    if !model.is_empty() && s.idx.dimension() != 2 {
        out.push((format!("state:{mname}:dimension"), format!("dimension() = {} with live 2-d vectors", s.idx.dimension())));
    }
    out
}

fn alphabet(prop: &str, quick: bool) -> Vec<HOp> {
    let mut a = vec![];
    let ids: &[usize] = if quick { &[1, 2] } else { &[1, 2, 3] };
    let vecs: Vec<usize> = if quick { vec![0, 1, 2, 3] } else { (0..vec_pool().len()).collect() };
    for &id in ids {
        for &v in &vecs {
            a.push(HOp::Ins(id, v));
        }
    }
    for &id in ids {
        a.push(HOp::Del(id));
    }
    a.push(HOp::Del(5));
    a.push(HOp::Rebuild);
    a.push(HOp::Batch(0));
    a.push(HOp::Batch(1));
    if prop == "C25" {
        a.push(HOp::SaveLoad);
        a.push(HOp::MgrSaveLoad);
    }
    a
}

/// Entropy plan of one execution: None = benign seed for every graph build; Some((r, j)) = the r-th graph
/// build of this execution draws level >= 1 for its j-th inserted point (one deviation from the default answer).
pub type Dev = Option<(usize, usize)>;

fn run_history(prop: &str, metric: DistanceMetric, h: &[HOp], quick: bool, menu: &crate::entropy::SeedMenu, dev: Dev) -> (Vec<(String, String)>, Vec<usize>, usize) {
    match dev {
        None => crate::entropy::plan(&menu.benign, None),
        Some((r, j)) => crate::entropy::plan(&menu.benign, Some((r, &menu.special[j]))),
    };
    let (v, sizes) = run_history_inner(prop, metric, h, quick);
    let builds = crate::entropy::calls();
    crate::entropy::clear();
    let v = match dev {
        None => v,
        // root-cause class: the metric and query flavour are dropped, the clause is kept
        Some((r, j)) => v
            .into_iter()
            .map(|(c, d)| {
                let parts: Vec<&str> = c.split(':').collect();
                let clause = parts.get(2).copied().unwrap_or(parts.last().copied().unwrap_or(""));
                (format!("upper_layer_node:{}:{clause}", parts[0]), format!("[graph build #{r} draws level>=1 for its point #{j}] {d}"))
            })
            .collect(),
    };
    (v, sizes, builds)
}

fn run_history_inner(prop: &str, metric: DistanceMetric, h: &[HOp], quick: bool) -> (Vec<(String, String)>, Vec<usize>) {
    let mut s = Subject { idx: Box::new(HnswIndex::new(mk_config(metric))), scratch: Scratch::new("hnsw") };
    let mut model = Model::new();
    let mut sizes = vec![];
    for (i, o) in h.iter().enumerate() {
        if let Err((c, d)) = apply(&mut s, &mut model, *o, metric) {
            return (vec![(c, format!("history [{}]: step {i}: {d}", hist_str(h)))], sizes);
        }
        sizes.push(model.len());
        // the state after a prefix was checked when that prefix was the whole history: check the last step only
        if i + 1 == h.len() {
            let v = if prop == "C24" { check_search(&s, &model, metric, quick) } else { check_state(&s, &model, metric) };
            if !v.is_empty() {
                return (v.into_iter().map(|(c, d)| (c, format!("history [{}]: {d}", hist_str(h)))).collect(), sizes);
            }
        }
    }
    (vec![], sizes)
}

pub fn run(args: &Args) -> i32 {
    quiet_panics();
    let prop = args.prop.clone();
    if let Some(p) = &args.replay {
        let j = read_replay(p);
        let h: Vec<HOp> = serde_json::from_value(j["case"]["history"].clone()).expect("history");
        let mi = j["case"]["metric_idx"].as_u64().unwrap_or(0) as usize;
        let menu = crate::entropy::seed_menu(8, 0.2, 4, 12, 5);
        let dev: Dev = j["case"]["deviation"].as_array().map(|a| (a[0].as_u64().unwrap() as usize, a[1].as_u64().unwrap() as usize));
        if !crate::entropy::shim_loaded() {
            eprintln!("MACHINERY-ERROR: entropy shim not preloaded");
            return 2;
        }
        let (v, _, _) = run_history(&prop, METRICS[mi], &h, false, &menu, dev);
        for (c, d) in &v {
            println!("class={c} {d}");
        }
        if !v.is_empty() {
            println!("VIOLATION property={prop} replay={}", p.display());
            return 1;
        }
        println!("replay: property holds on this history");
        return 0;
    }
    let run = Run::new(args, "model_checking", 50.0, 1500.0);
    let menu = crate::entropy::seed_menu(8, 0.2, 4, 12, 5);
    if !crate::entropy::shim_loaded() {
        run.machinery_error("entropy shim not preloaded (LD_PRELOAD=shim/fsshim.so): HNSW level draws would be uncontrolled".into());
        return run.finish();
    }
    match crate::entropy::validate_model(&menu, 8, 0.2, 4) {
        Ok(n) => run.put("entropy_model_validated_against_hnsw_rs_seeds", json!(n)),
        Err(e) => {
            run.machinery_error(format!("entropy model does not conform to hnsw_rs: {e}"));
            return run.finish();
        }
    }
    let alpha = alphabet(&prop, run.quick());
    let depth = if run.quick() { 3 } else { 4 };
    if prop == "C24" {
        run.set_rule("all histories (shortlex) up to the depth bound, from TWO start states (empty index; the five-point index after insert_batch #0), over {insert id v (ids 1..2/3 x pool of 2-d vectors incl. zero and 1e-12 norm), delete id (incl. never-inserted id), rebuild(live), insert_batch of two fixed sets (five points with four duplicates; two duplicates)} on a real HnswIndex per metric (euclidean, cosine, dot, manhattan); after the last step of every history: search for 5 queries (incl. near-zero norm) x k x ef in {1,2,default}: <=k results, distinct ids, all live in the reference map, distances non-decreasing and equal to the metric value computed in f64 from the latest vectors; when live <= ef: exactly min(k,live) results whose ranking distances equal the k smallest (ties free). Every prefix is itself an enumerated history, so every reachable state within the bound is checked. non-trivial = histories ending with a non-empty live set");
    } else {
        run.set_rule("C24's alphabet plus save+load (HnswIndex) and IndexManager save_indexes+load_indexes at every position; after the last step of every history: an exhaustive search sees exactly the live identifiers with distances of their latest vectors, len()-tombstone_count() = live count, metric/config unchanged (also across persistence), dimension = 2 while vectors are live. non-trivial = histories ending with a non-empty live set");
    }
    run.assume("HNSW level draws come from OS entropy inside hnsw_rs; with <=5 points and M=8 every node links to every other on layer 0, so results do not depend on the draw (argued in DESIGN.md); dot-product exact-value clause asserted on unit-norm inputs only; angular metrics not asserted for an exactly-zero query");
    run.put("alphabet", json!(alpha.iter().map(|o| op_name(*o)).collect::<Vec<_>>()));
    let states = std::sync::Mutex::new(BTreeSet::new());
    let mut transitions = 0u64;
    let mut traces = 0u64;
    let mut completed = 0;
    for len in 1..=depth {
        let nseq = alpha.len().pow(len as u32);
        let total = nseq * METRICS.len() * 2;
        let done = run.par_for(total, threads(), |ix, l| {
            let mi = ix % METRICS.len();
            let root = (ix / METRICS.len()) % 2;
            let mut idx = ix / METRICS.len() / 2;
            let mut h = vec![alpha[0]; len];
            for p in (0..len).rev() {
                h[p] = alpha[idx % alpha.len()];
                idx /= alpha.len();
            }
            // second root: the five-point index (start from a non-initial state)
            if root == 1 {
                h.insert(0, HOp::Batch(0));
            }
            l.eval();
            let r = catch_unwind(AssertUnwindSafe(|| {
                let (mut v, sizes, builds) = run_history(&prop, METRICS[mi], &h, run.quick(), &menu, None);
                let mut cases: Vec<(Dev, Vec<(String, String)>)> = vec![(None, std::mem::take(&mut v))];
                // one deviation from the default environment answer: some graph build gets an upper-layer node
                // every graph build starts from scratch, so only the LAST build of a history shapes the graph that
                // the final observation sees (earlier builds are final builds of the history's prefixes, which are
                // enumerated as histories of their own)
                for r in builds.saturating_sub(1)..builds {
                    for j in 0..menu.special.len() {
                        let (vd, _, _) = run_history(&prop, METRICS[mi], &h, run.quick(), &menu, Some((r, j)));
                        l.count("executions_with_one_level_draw_deviation", 1);
                        l.eval();
                        if !vd.is_empty() {
                            cases.push((Some((r, j)), vd));
                        }
                    }
                }
                (cases, sizes)
            }));
            match r {
                Ok((cases, sizes)) => {
                    let v: Vec<(Dev, String, String)> = cases.into_iter().flat_map(|(dv, vs)| vs.into_iter().map(move |(c, d)| (dv, c, d))).collect();
                    if sizes.last().copied().unwrap_or(0) > 0 {
                        l.nontrivial(fnv(format!("{mi}{h:?}").as_bytes()));
                    }
                    l.outcome(fnv(format!("{sizes:?}").as_bytes()));
                    states.lock().unwrap().insert((mi, sizes.clone()));
                    for (dv, c, d) in v {
                        run.violation(&c, json!({"history": h, "history_text": hist_str(&h), "metric_idx": mi, "metric": format!("{:?}", METRICS[mi]), "deviation": dv.map(|(r, j)| vec![r, j])}), d);
                    }
                    if run.want_sample() && ix % 3001 == 7 {
                        run.sample(json!({"metric": format!("{:?}", METRICS[mi]), "history": hist_str(&h), "live_count_after_each_step": sizes}));
                    }
                }
                Err(p) => run.violation("panic", json!({"history": h, "history_text": hist_str(&h), "metric_idx": mi}), format!("history [{}] metric {:?}: panic {}", hist_str(&h), METRICS[mi], crate::e1::panic_msg(&p))),
            }
        });
        traces += done as u64;
        transitions += (done * len) as u64;
        if done < total {
            break;
        }
        completed = len;
    }
    run.put("states", json!(states.lock().unwrap().len()));
    run.put("transitions", json!(transitions));
    run.put("traces_validated_against_impl", json!(traces));
    run.put("max_depth_completed", json!(completed));
    run.put("depth_bound", json!(depth));
    run.finish()
}
