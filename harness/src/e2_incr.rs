//! E2 HIST with incremental maintenance: C18 (materialization invisible: twin engines, incremental on/off)
//! and C19 sequential leg (arrangements mirror the base relations).

use crate::common::*;
use crate::e2_handler::{messages, Env};
use crate::gen::*;
use crate::r1::*;
use inputlayer::{Tuple, Value};
use serde_json::json;
use std::collections::{BTreeMap, BTreeSet};
use std::panic::{catch_unwind, AssertUnwindSafe};

const KG: &str = "A";

fn enable_incremental(env: &Env) -> Result<(), String> {
    let s = env.handler.get_storage();
    s.with_kg_mut(KG, |k| k.enable_incremental().map_err(|e| e.to_string())).map_err(|e| e.to_string())
}

// ---------------------------------------------------------------------------
// C18

const C18_OPS: [&str; 15] = [
    "+e(1)",
    "+e(2)",
    "-e(1)",
    "+f(1)",
    "+f(2)",
    "-f(1)",
    "+p(X) <- e(X)",
    "+p(X) <- f(X)",
    "+r(X) <- p(X), f(X)",
    "+t(X) <- r(X)",
    ".rule remove p 1",
    ".rule drop p",
    ".rule drop r",
    // incremental engine only: store the CURRENT correct answer as the materialization of the relation
    // (KnowledgeGraph::materialize_derived_relation, what auto-materialization is meant to do on register)
    "materialize p",
    "materialize r",
];

#[derive(Default, Clone, Debug)]
struct M18 {
    e: BTreeSet<i64>,
    f: BTreeSet<i64>,
    rules: BTreeMap<String, Vec<Clause>>,
}

fn m18_step(m: &mut M18, op: usize, accepted: bool) {
    if !accepted {
        return;
    }
    match op {
        0 => {
            m.e.insert(1);
        }
        1 => {
            m.e.insert(2);
        }
        2 => {
            m.e.remove(&1);
        }
        3 => {
            m.f.insert(1);
        }
        4 => {
            m.f.insert(2);
        }
        5 => {
            m.f.remove(&1);
        }
        6..=9 => {
            let c = match op {
                6 => clause("p", &[X], vec![pos("e", &[X])]),
                7 => clause("p", &[X], vec![pos("f", &[X])]),
                8 => clause("r", &[X], vec![pos("p", &[X]), pos("f", &[X])]),
                _ => clause("t", &[X], vec![pos("r", &[X])]),
            };
            let v = m.rules.entry(c.rel.clone()).or_default();
            // registering a clause that is already present does not add a second copy
            if !v.contains(&c) {
                v.push(c);
            }
        }
        10 => {
            if let Some(v) = m.rules.get_mut("p") {
                if !v.is_empty() {
                    v.remove(0);
                }
                if v.is_empty() {
                    m.rules.remove("p");
                }
            }
        }
        11 => {
            m.rules.remove("p");
        }
        12 => {
            m.rules.remove("r");
        }
        _ => {}
    }
}

type Obs = Result<BTreeSet<i64>, String>;

fn observe(env: &Env, rel: &str) -> Obs {
    match env.query_program(Some(KG), &format!("?{rel}(X)")) {
        Err(e) => Err(e),
        Ok(q) => {
            let mut s = BTreeSet::new();
            for row in &q.rows {
                match row.values.first() {
                    Some(inputlayer::protocol::wire::WireValue::Int64(i)) => {
                        s.insert(*i);
                    }
                    Some(inputlayer::protocol::wire::WireValue::String(m)) if q.schema.len() <= 1 && row.values.len() == 1 && q.rows.len() == 1 && m.contains(' ') => {
                        // a message row ("No results" / error text) rather than data
                        return if m.to_lowercase().contains("error") || m.to_lowercase().contains("unknown") || m.to_lowercase().contains("not found") { Err(m.clone()) } else { Ok(BTreeSet::new()) };
                    }
                    other => return Err(format!("unexpected row {other:?}")),
                }
            }
            Ok(s)
        }
    }
}

fn accepted(r: &Result<inputlayer::protocol::wire::QueryResult, String>) -> bool {
    match r {
        Err(_) => false,
        Ok(_) => {
            let m = messages(r);
            !m.iter().any(|s| s.contains("failed") || s.starts_with("Error") || s.contains("not found") || s.contains("No rule") || s.contains("out of"))
        }
    }
}

/// history h, incremental enabled on engine A just before step `enable_at` (== h.len(): after the last step).
fn c18_one(h: &[usize], enable_at: usize) -> Option<(String, String)> {
    let a = Env::new("c18a");
    let b = Env::new("c18b");
    a.create_kg(KG);
    b.create_kg(KG);
    let mut m = M18::default();
    // non-initial start state: e = {1}, f = {1, 2}
    for env in [&a, &b] {
        env.insert(KG, "e", vec![Tuple::new(vec![Value::Int64(1)])]);
        env.insert(KG, "f", vec![Tuple::new(vec![Value::Int64(1)]), Tuple::new(vec![Value::Int64(2)])]);
    }
    m.e.insert(1);
    m.f.insert(1);
    m.f.insert(2);
    let hs = || h.iter().map(|i| C18_OPS[*i]).collect::<Vec<_>>().join(" ; ");
    for step in 0..=h.len() {
        if step == enable_at {
            if let Err(e) = enable_incremental(&a) {
                return Some(("enable_incremental_failed".into(), format!("history [{}]: {e}", hs())));
            }
        }
        if step == h.len() {
            break;
        }
        let op = h[step];
        if op >= 13 {
            let rel = if op == 13 { "p" } else { "r" };
            // only a relation that currently has a rule is materialized (what auto-materialization would do)
            if step >= enable_at && m.rules.contains_key(rel) {
                if let Ok(cur) = observe(&b, rel) {
                    let tuples: Vec<Tuple> = cur.iter().map(|x| Tuple::new(vec![Value::Int64(*x)])).collect();
                    let s = a.handler.get_storage();
                    let _ = s.with_kg_read(KG, |k| k.materialize_derived_relation(rel, tuples.clone()));
                }
            }
            continue;
        }
        let ra = a.query_program(Some(KG), C18_OPS[op]);
        let rb = b.query_program(Some(KG), C18_OPS[op]);
        let (aa, ab) = (accepted(&ra), accepted(&rb));
        if aa != ab {
            return Some((
                "statement_outcome_differs".into(),
                format!("history [{}] (incremental enabled before step {enable_at}): step {step} `{}` replied {:?} with incremental maintenance but {:?} without", hs(), C18_OPS[op], messages(&ra), messages(&rb)),
            ));
        }
        m18_step(&mut m, op, ab);
        if step < enable_at {
            continue; // identical engines so far
        }
        for rel in ["p", "r", "t"] {
            let (oa, ob) = (observe(&a, rel), observe(&b, rel));
            let same = match (&oa, &ob) {
                (Ok(x), Ok(y)) => x == y,
                (Err(_), Err(_)) => true,
                _ => false,
            };
            if !same {
                let kind = if rel == "p" { "derived_from_base" } else { "derived_from_derived" };
                let after = match op {
                    0..=5 => "after_base_write",
                    6..=9 => "after_rule_registration",
                    _ => "after_rule_removal",
                };
                let after = if h[..step].iter().any(|o| *o >= 13) { format!("{after}:with_explicit_materialization") } else { after.to_string() };
                // dependency tracking only knows rules registered while maintenance was already on
                let after = if h[..enable_at.min(h.len())].iter().any(|o| (6..=9).contains(o)) { format!("{after}:rule_registered_before_enabling") } else { after };
                return Some((
                    format!("answer_differs_with_incremental:{kind}:{after}"),
                    format!("history [{}] (incremental enabled before step {enable_at}): after step {step} `{}` ?{rel}(X) answers {oa:?} with incremental maintenance but {ob:?} without", hs(), C18_OPS[op]),
                ));
            }
            // reference: fresh evaluation of the current rules over the current facts (when the plain engine answers)
            if let Ok(got) = &ob {
                if m.rules.contains_key(rel) {
                    let mut cl: Vec<Clause> = m.rules.values().flatten().cloned().collect();
                    cl.push(clause("q", &[X], vec![pos(rel, &[X])]));
                    let closed = cl.iter().all(|c| c.body.iter().all(|l| matches!(l, Lit::Pos(x) if x.rel == "e" || x.rel == "f" || m.rules.contains_key(&x.rel))));
                    if closed {
                        let mut db = Db::new();
                        db.insert("e".into(), m.e.iter().map(|x| vec![*x]).collect());
                        db.insert("f".into(), m.f.iter().map(|x| vec![*x]).collect());
                        if let Ok(exp) = eval_query(&Program { clauses: cl }, &db) {
                            let exp: BTreeSet<i64> = exp.iter().filter_map(|r| if let Out::I(i) = r[0] { Some(i) } else { None }).collect();
                            if &exp != got {
                                return Some(("plain_engine_differs_from_reference".into(), format!("history [{}]: after step {step} ?{rel}(X) answers {got:?} without incremental maintenance; reference evaluation gives {exp:?}", hs())));
                            }
                        }
                    }
                }
            }
        }
    }
    None
}

pub fn c18(args: &Args) -> i32 {
    quiet_panics();
    if let Some(p) = &args.replay {
        let j = read_replay(p);
        let h: Vec<usize> = serde_json::from_value(j["case"]["history_idx"].clone()).expect("history_idx");
        let at = j["case"]["enable_at"].as_u64().unwrap_or(0) as usize;
        let r = c18_one(&h, at);
        if let Some((c, d)) = &r {
            println!("class={c} {d}\nVIOLATION property=C18 replay={}", p.display());
        }
        return r.is_some() as i32;
    }
    let run = Run::new(args, "model_checking", 55.0, 1500.0);
    let depth = if run.quick() { 3 } else { 4 };
    run.set_rule("all histories up to the depth bound, from the start state e={1}, f={1,2}, over 15 symbols (inserts/deletes on e and f; register p <- e, p <- f (2nd clause), r <- p,f (derived on derived), t <- r; remove clause 1 of p; drop p; drop r; materialize p / r = store the current correct answer through KnowledgeGraph::materialize_derived_relation on the incremental engine), each applied in lock-step through Handler::query_program to TWO real engines; on one of them KnowledgeGraph::enable_incremental() is called just before step k, for EVERY k in 0..=len (so maintenance starts from every reachable state). After every later step ?p, ?r, ?t must answer identically on both engines (or fail on both), every statement must be accepted/rejected identically, and the plain engine's answers equal the reference evaluation of the modelled rules over the modelled facts. non-trivial = (history, k) with at least one rule registration; states = distinct modelled (facts, rules)");
    let mut cases: Vec<(Vec<usize>, usize)> = vec![];
    let mut level: Vec<Vec<usize>> = vec![vec![]];
    for _ in 0..depth {
        let mut nx = vec![];
        for p in &level {
            for i in 0..C18_OPS.len() {
                let mut q = p.clone();
                q.push(i);
                nx.push(q);
            }
        }
        for h in &nx {
            for k in 0..h.len() {
                cases.push((h.clone(), k));
            }
        }
        level = nx;
    }
    run.put("cases", json!(cases.len()));
    let states = std::sync::Mutex::new(BTreeSet::new());
    let done = run.par_for(cases.len(), threads(), |i, l| {
        let (h, k) = &cases[i];
        l.eval();
        if h.iter().any(|o| (6..=9).contains(o)) {
            l.nontrivial(i as u64);
        }
        let r = catch_unwind(AssertUnwindSafe(|| c18_one(h, *k)));
        match r {
            Ok(None) => {
                let mut m = M18::default();
                for o in h {
                    m18_step(&mut m, *o, true);
                }
                let key = fnv(format!("{m:?}").as_bytes());
                l.outcome(key);
                states.lock().unwrap().insert(key);
                if run.want_sample() && i % 1201 == 7 {
                    run.sample(json!({"history": h.iter().map(|x| C18_OPS[*x]).collect::<Vec<_>>(), "incremental_enabled_before_step": k}));
                }
            }
            Ok(Some((c, d))) => run.violation(&c, json!({"history_idx": h, "enable_at": k, "history": h.iter().map(|x| C18_OPS[*x]).collect::<Vec<_>>()}), d),
            Err(p) => run.violation("panic", json!({"history_idx": h, "enable_at": k}), crate::e1::panic_msg(&p)),
        }
    });
    run.put("states", json!(states.lock().unwrap().len()));
    run.put("transitions", json!(cases.iter().take(done).map(|(h, _)| h.len() as u64 * 2).sum::<u64>()));
    run.put("traces_validated_against_impl", json!(done));
    run.put("depth_bound", json!(depth));
    run.finish()
}

// ---------------------------------------------------------------------------
// C19 (sequential leg): consistent reads of the incremental arrangements mirror the base relation

const C19_OPS: [&str; 9] = ["ins a", "ins b", "ins [a,a]", "ins [a,b]", "del a", "del b", "del [a,b]", "del absent", "del [a,a]"];

fn ta() -> Tuple {
    Tuple::new(vec![Value::Int64(1), Value::Int64(2)])
}
fn tb() -> Tuple {
    Tuple::new(vec![Value::Int64(3), Value::Int64(4)])
}
fn tc() -> Tuple {
    Tuple::new(vec![Value::Int64(9), Value::Int64(9)])
}

fn c19_one(h: &[usize], enable_at: usize) -> Option<(String, String)> {
    let env = Env::new("c19");
    env.create_kg(KG);
    let mut model: BTreeSet<String> = BTreeSet::new();
    let hs = || h.iter().map(|i| C19_OPS[*i]).collect::<Vec<_>>().join(" ; ");
    let key = |t: &Tuple| format!("{t:?}");
    for step in 0..=h.len() {
        if step == enable_at {
            if let Err(e) = enable_incremental(&env) {
                return Some(("enable_incremental_failed".into(), format!("history [{}]: {e}", hs())));
            }
        }
        if step == h.len() {
            break;
        }
        let s = env.handler.get_storage();
        let r = match h[step] {
            0 => s.insert_tuples_into(KG, "r", vec![ta()]).map(|_| ()),
            1 => s.insert_tuples_into(KG, "r", vec![tb()]).map(|_| ()),
            2 => s.insert_tuples_into(KG, "r", vec![ta(), ta()]).map(|_| ()),
            3 => s.insert_tuples_into(KG, "r", vec![ta(), tb()]).map(|_| ()),
            4 => s.delete_tuples_from(KG, "r", vec![ta()]).map(|_| ()),
            5 => s.delete_tuples_from(KG, "r", vec![tb()]).map(|_| ()),
            6 => s.delete_tuples_from(KG, "r", vec![ta(), tb()]).map(|_| ()),
            8 => s.delete_tuples_from(KG, "r", vec![ta(), ta()]).map(|_| ()),
            _ => s.delete_tuples_from(KG, "r", vec![tc()]).map(|_| ()),
        };
        if let Err(e) = r {
            return Some(("write_failed".into(), format!("history [{}]: step {step} {}: {e}", hs(), C19_OPS[h[step]])));
        }
        match h[step] {
            0 | 2 => {
                model.insert(key(&ta()));
            }
            1 => {
                model.insert(key(&tb()));
            }
            3 => {
                model.insert(key(&ta()));
                model.insert(key(&tb()));
            }
            4 | 8 => {
                model.remove(&key(&ta()));
            }
            5 => {
                model.remove(&key(&tb()));
            }
            6 => {
                model.remove(&key(&ta()));
                model.remove(&key(&tb()));
            }
            _ => {}
        }
        if step < enable_at {
            continue;
        }
        let got = s.with_kg_read(KG, |k| match k.incremental() {
            None => Err("incremental engine missing".to_string()),
            Some(dd) => dd.read_relation_consistent("r"),
        });
        match got {
            Err(e) => return Some(("consistent_read_failed".into(), format!("history [{}] (enabled before step {enable_at}): after step {step}: {e}", hs()))),
            Ok(ts) => {
                let set: BTreeSet<String> = ts.iter().map(key).collect();
                if set.len() != ts.len() {
                    return Some(("arrangement_holds_duplicates".into(), format!("history [{}] (enabled before step {enable_at}): after step {step} ({}) the consistent read returns {:?}", hs(), C19_OPS[h[step]], ts.iter().map(|t| t.to_string()).collect::<Vec<_>>())));
                }
                if set != model {
                    let mode = if set.len() > model.len() { "stale_or_resurrected_tuple" } else { "missing_tuple" };
                    return Some((format!("arrangement_differs_from_base:{mode}"), format!("history [{}] (enabled before step {enable_at}): after step {step} ({}) the consistent read returns {set:?} but the relation holds {model:?}", hs(), C19_OPS[h[step]])));
                }
            }
        }
    }
    None
}

pub fn c19(args: &Args) -> i32 {
    quiet_panics();
    if let Some(p) = &args.replay {
        let j = read_replay(p);
        if j["case"]["leg"] == "interleavings" {
            return crate::e4_c19::replay(args, &j["case"]);
        }
        let h: Vec<usize> = serde_json::from_value(j["case"]["history_idx"].clone()).expect("history_idx");
        let at = j["case"]["enable_at"].as_u64().unwrap_or(0) as usize;
        let r = c19_one(&h, at);
        if let Some((c, d)) = &r {
            println!("class={c} {d}\nVIOLATION property=C19 replay={}", p.display());
        }
        return r.is_some() as i32;
    }
    let run = Run::new(args, "model_checking", 55.0, 1500.0);
    let depth = if run.quick() { 4 } else { 5 };
    run.set_rule("sequential leg: all histories up to the depth bound over {ins a, ins b, ins [a,a], ins [a,b], del a, del b, del [a,b], del absent, del [a,a]} through StorageEngine::insert_tuples_into / delete_tuples_from on one KG, incremental maintenance enabled just before step k for every k (replay of existing data included); after every later step IncrementalEngine::read_relation_consistent must return exactly the set model of the relation, without duplicates. non-trivial = (history, k) with at least one write after enabling; states = distinct (model, depth). E4 leg: see `interleavings` in the coverage block");
    let mut cases: Vec<(Vec<usize>, usize)> = vec![];
    let mut level: Vec<Vec<usize>> = vec![vec![]];
    for _ in 0..depth {
        let mut nx = vec![];
        for p in &level {
            for i in 0..C19_OPS.len() {
                let mut q = p.clone();
                q.push(i);
                nx.push(q);
            }
        }
        for h in &nx {
            for k in 0..h.len() {
                cases.push((h.clone(), k));
            }
        }
        level = nx;
    }
    run.put("cases", json!(cases.len()));
    crate::e4_c19::interleavings(&run, 0.4);
    let states = std::sync::Mutex::new(BTreeSet::new());
    let done = run.par_for(cases.len(), threads(), |i, l| {
        let (h, k) = &cases[i];
        l.eval();
        l.nontrivial(i as u64);
        let r = catch_unwind(AssertUnwindSafe(|| c19_one(h, *k)));
        match r {
            Ok(None) => {
                l.outcome(fnv(format!("{h:?}").as_bytes()) % 64);
                states.lock().unwrap().insert((h.len(), *k));
                if run.want_sample() && i % 1201 == 7 {
                    run.sample(json!({"history": h.iter().map(|x| C19_OPS[*x]).collect::<Vec<_>>(), "incremental_enabled_before_step": k}));
                }
            }
            Ok(Some((c, d))) => run.violation(&c, json!({"history_idx": h, "enable_at": k, "history": h.iter().map(|x| C19_OPS[*x]).collect::<Vec<_>>()}), d),
            Err(p) => run.violation("panic", json!({"history_idx": h, "enable_at": k}), crate::e1::panic_msg(&p)),
        }
    });
    run.put("states", json!(states.lock().unwrap().len()));
    run.put("transitions", json!(cases.iter().take(done).map(|(h, _)| h.len() as u64).sum::<u64>()));
    run.put("traces_validated_against_impl", json!(done));
    run.put("depth_bound", json!(depth));
    run.finish()
}
