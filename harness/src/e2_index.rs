//! E2 HIST on in-memory index structures: C36 (bloom filter / hash index never lose keys).

use crate::common::*;
use crate::e5::same_tuple;
use inputlayer::bloom_filter::BloomFilter;
use inputlayer::hash_index::{HashIndex, JoinKeySpec};
use inputlayer::{Tuple, Value};
use serde_json::json;
use std::collections::BTreeSet;
use std::panic::{catch_unwind, AssertUnwindSafe};

fn i(v: i64) -> Value {
    Value::Int64(v)
}

/// Keys for the bloom leg: ints, strings, tuples (incl. kinds that hash through different paths).
fn bloom_keys() -> Vec<Tuple> {
    vec![
        Tuple::new(vec![i(1)]),
        Tuple::new(vec![i(2)]),
        Tuple::new(vec![Value::string("a")]),
        Tuple::new(vec![Value::string("")]),
        Tuple::new(vec![i(1), i(2)]),
        Tuple::new(vec![Value::Float64(-0.0), Value::Null]),
    ]
}

#[derive(Clone, Copy, Debug, PartialEq)]
enum BOp {
    Ins(usize),
    Clear,
}

fn bloom_seq(mut idx: usize, len: usize, nk: usize) -> Vec<BOp> {
    let a = nk + 1;
    let mut v = vec![BOp::Clear; len];
    for p in (0..len).rev() {
        let s = idx % a;
        idx /= a;
        v[p] = if s < nk { BOp::Ins(s) } else { BOp::Clear };
    }
    v
}

enum Filt {
    Params(usize, usize),
    New(usize, f64),
}

fn mk_filter(f: &Filt) -> BloomFilter {
    match f {
        Filt::Params(b, h) => BloomFilter::with_params(*b, *h),
        Filt::New(n, p) => BloomFilter::new(*n, *p),
    }
}

// ---------------------------------------------------------------------------

fn hi_tuples() -> Vec<Tuple> {
    vec![
        Tuple::new(vec![i(1), i(1)]),
        Tuple::new(vec![i(1), i(2)]),
        Tuple::new(vec![i(2), i(1)]),
        Tuple::new(vec![i(2), i(2)]),
        // same numeric value, other kind: a different key under Eq
        Tuple::new(vec![Value::Int32(1), i(2)]),
    ]
}
fn hi_builds() -> Vec<Vec<usize>> {
    vec![vec![], vec![0, 1], vec![0, 0, 3], vec![4, 1, 2]]
}

#[derive(Clone, Copy, Debug, PartialEq)]
enum HOp {
    Ins(usize),
    Rem(usize),
    Build(usize),
}
fn hi_alpha(nt: usize) -> Vec<HOp> {
    let mut v = vec![];
    for t in 0..nt {
        v.push(HOp::Ins(t));
    }
    for t in 0..nt {
        v.push(HOp::Rem(t));
    }
    for b in 0..hi_builds().len() {
        v.push(HOp::Build(b));
    }
    v
}
fn hop_name(o: HOp, ts: &[Tuple]) -> String {
    match o {
        HOp::Ins(t) => format!("insert {}", ts[t]),
        HOp::Rem(t) => format!("remove {}", ts[t]),
        HOp::Build(b) => format!("build_from_tuples {:?}", hi_builds()[b]),
    }
}

fn key_of(t: &Tuple, cols: &[usize]) -> Tuple {
    Tuple::new(cols.iter().map(|c| t.get(*c).unwrap().clone()).collect())
}

fn multiset(ts: &[Tuple]) -> Vec<String> {
    let mut v: Vec<String> = ts.iter().map(|t| format!("{t:?}")).collect();
    v.sort();
    v
}

/// Run one hash-index history; Err((class, detail)) at first divergence from the multiset model.
fn hi_history(cols: &[usize], h: &[HOp], ts: &[Tuple]) -> Result<Vec<usize>, (String, String)> {
    let builds = hi_builds();
    let mut idx = HashIndex::new(JoinKeySpec::new("r", cols.to_vec()), 4);
    let mut model: Vec<Tuple> = vec![];
    let mut sizes = vec![];
    // probe keys: keys of every domain tuple plus an absent key
    let mut probe_keys: Vec<Tuple> = vec![];
    for t in ts {
        let k = key_of(t, cols);
        if !probe_keys.iter().any(|p| same_tuple(p, &k)) {
            probe_keys.push(k);
        }
    }
    probe_keys.push(Tuple::new(cols.iter().map(|_| i(99)).collect()));
    let hs = || h.iter().map(|o| hop_name(*o, ts)).collect::<Vec<_>>().join("; ");
    for (step, o) in h.iter().enumerate() {
        match o {
            HOp::Ins(t) => {
                idx.insert(ts[*t].clone());
                model.push(ts[*t].clone());
            }
            HOp::Rem(t) => {
                let r = idx.remove(&ts[*t]);
                let pos = model.iter().position(|m| same_tuple(m, &ts[*t]));
                if r != pos.is_some() {
                    return Err(("hash_index:remove_report".into(), format!("key columns {cols:?}, history [{}]: step {step} remove returned {r} but the tuple was {} stored", hs(), if pos.is_some() { "" } else { "not" })));
                }
                if let Some(p) = pos {
                    model.remove(p);
                }
            }
            HOp::Build(b) => {
                let set: Vec<Tuple> = builds[*b].iter().map(|k| ts[*k].clone()).collect();
                idx.build_from_tuples(set.clone());
                model = set;
            }
        }
        sizes.push(model.len());
        if idx.len() != model.len() || idx.is_empty() != model.is_empty() {
            return Err(("hash_index:len".into(), format!("key columns {cols:?}, history [{}]: after step {step} len()={} but {} tuples are stored", hs(), idx.len(), model.len())));
        }
        for k in &probe_keys {
            let want: Vec<Tuple> = model.iter().filter(|t| same_tuple(&key_of(t, cols), k)).cloned().collect();
            let got_get: Vec<Tuple> = idx.get(k).cloned().unwrap_or_default();
            let got_bloom: Vec<Tuple> = idx.get_with_bloom(k).cloned().unwrap_or_default();
            let got_probe: Vec<Tuple> = idx.probe(k).cloned().collect();
            let w = multiset(&want);
            for (name, got) in [("get", &got_get), ("get_with_bloom", &got_bloom), ("probe", &got_probe)] {
                if multiset(got) != w {
                    let mode = if got.len() < want.len() { "lost" } else { "foreign_or_stale" };
                    return Err((format!("hash_index:{name}:{mode}"), format!("key columns {cols:?}, history [{}]: after step {step} {name}({k}) returned {:?} but the stored tuples with that key are {:?}", hs(), multiset(got), w)));
                }
            }
            if !want.is_empty() && !idx.might_contain_key(k) {
                return Err(("hash_index:might_contain_key:false_negative".into(), format!("key columns {cols:?}, history [{}]: after step {step} might_contain_key({k}) is false but {} tuples with that key are stored", hs(), want.len())));
            }
        }
    }
    Ok(sizes)
}

fn hi_seq(mut idx: usize, len: usize, alpha: &[HOp]) -> Vec<HOp> {
    let mut v = vec![alpha[0]; len];
    for p in (0..len).rev() {
        v[p] = alpha[idx % alpha.len()];
        idx /= alpha.len();
    }
    v
}

pub fn c36(args: &Args) -> i32 {
    quiet_panics();
    let run = Run::new(args, "model_checking", 50.0, 900.0);
    if args.replay.is_some() {
        eprintln!("C36 replays: the class and detail text name the filter parameters / key columns and the full history; re-run ./check C36 to reproduce (the space is tiny)");
    }
    run.set_rule("bloom leg: BloomFilter::with_params(bits in {0,1,63,64,65,128,1000}, hashes in {0,1,2,7,32,100}) and BloomFilter::new(n in {1,2,100}, p in {0.5,0.01,1e-9}) x ALL sequences up to depth L over {insert k (6 keys: ints, strings incl. empty, tuples, -0.0/null), clear}: every key inserted since the last clear must be reported by might_contain, len() counts insertions since clear. hash-index leg: key columns {[0],[1],[0,1]} x ALL histories up to depth L over {insert t, remove t (5 tuples over {1,2}^2 plus an Int32/Int64 twin), build_from_tuples S (4 sets incl. empty and duplicates)}: after every step get/get_with_bloom/probe for every domain key and an absent key return exactly the stored multiset with that key, might_contain_key is true for every stored key, len() equals the stored count, remove() reports presence. long-history leg: 5 expected_keys settings x {insert only, inserts with removals and one rebuild}, 1500 (thorough 6000) distinct keys one by one, the new key checked through every Bloom-guarded path after EVERY step and all live keys every 50 steps. non-trivial = histories that store at least one key; states = distinct (model multiset, depth)");
    let keys = bloom_keys();
    let mut filters: Vec<(String, Filt)> = vec![];
    for b in [0usize, 1, 63, 64, 65, 128, 1000] {
        for h in [0usize, 1, 2, 7, 32, 100] {
            filters.push((format!("with_params({b},{h})"), Filt::Params(b, h)));
        }
    }
    for n in [1usize, 2, 100] {
        for p in [0.5f64, 0.01, 1e-9] {
            filters.push((format!("new({n},{p})"), Filt::New(n, p)));
        }
    }
    let depth_b = if run.quick() { 5 } else { 7 };
    let states = std::sync::Mutex::new(BTreeSet::new());
    let mut transitions = 0u64;
    let mut traces = 0u64;
    let mut completed = 0usize;
    let nk = keys.len();
    for len in 1..=depth_b {
        let nseq = (nk + 1).pow(len as u32);
        let total = nseq * filters.len();
        let done = run.par_for(total, threads(), |ix, l| {
            let (fname, f) = &filters[ix % filters.len()];
            let h = bloom_seq(ix / filters.len(), len, nk);
            l.eval();
            let r = catch_unwind(AssertUnwindSafe(|| -> Option<(String, String)> {
                let mut bf = mk_filter(f);
                let mut present: BTreeSet<usize> = BTreeSet::new();
                let mut count = 0usize;
                for (step, o) in h.iter().enumerate() {
                    match o {
                        BOp::Ins(k) => {
                            bf.insert(&keys[*k]);
                            present.insert(*k);
                            count += 1;
                        }
                        BOp::Clear => {
                            bf.clear();
                            present.clear();
                            count = 0;
                        }
                    }
                    for k in &present {
                        if !bf.might_contain(&keys[*k]) {
                            return Some(("bloom:false_negative".into(), format!("{fname}: history {h:?}: after step {step} might_contain({}) is false although the key was inserted", keys[*k])));
                        }
                    }
                    if bf.len() != count || bf.is_empty() != (count == 0) {
                        return Some(("bloom:len".into(), format!("{fname}: history {h:?}: after step {step} len()={} but {count} insertions since the last clear", bf.len())));
                    }
                }
                states.lock().unwrap().insert((0usize, format!("{present:?}"), len));
                None
            }));
            if h.iter().any(|o| matches!(o, BOp::Ins(_))) {
                l.nontrivial(fnv(format!("b{fname}{h:?}").as_bytes()));
            }
            match r {
                Ok(None) => l.outcome(1),
                Ok(Some((c, d))) => run.violation(&c, json!({"leg": "bloom", "filter": fname, "history": format!("{h:?}")}), d),
                Err(p) => run.violation("bloom:panic", json!({"leg": "bloom", "filter": fname, "history": format!("{h:?}")}), format!("{fname}: history {h:?}: panic {}", crate::e1::panic_msg(&p))),
            }
            if run.want_sample() && ix % 4001 == 17 {
                run.sample(json!({"filter": fname, "history": format!("{h:?}")}));
            }
        });
        traces += done as u64;
        transitions += (done * len) as u64;
        if done < total {
            break;
        }
        completed = len;
    }
    run.put("bloom_depth_completed", json!(completed));
    run.put("bloom_filters", json!(filters.len()));

    // hash index leg
    let ts = hi_tuples();
    let alpha = hi_alpha(ts.len());
    let specs: Vec<Vec<usize>> = vec![vec![0], vec![1], vec![0, 1]];
    let depth_h = if run.quick() { 4 } else { 6 };
    let mut completed_h = 0;
    for len in 1..=depth_h {
        let nseq = alpha.len().pow(len as u32);
        let total = nseq * specs.len();
        let done = run.par_for(total, threads(), |ix, l| {
            let cols = &specs[ix % specs.len()];
            let h = hi_seq(ix / specs.len(), len, &alpha);
            l.eval();
            let r = catch_unwind(AssertUnwindSafe(|| hi_history(cols, &h, &ts)));
            match r {
                Ok(Ok(sizes)) => {
                    if sizes.iter().any(|s| *s > 0) {
                        l.nontrivial(fnv(format!("h{cols:?}{h:?}").as_bytes()));
                    }
                    l.outcome(*sizes.last().unwrap() as u64 + 100);
                    states.lock().unwrap().insert((1usize, format!("{sizes:?}"), len));
                    if run.want_sample() && ix % 5003 == 11 {
                        run.sample(json!({"key_columns": cols, "history": h.iter().map(|o| hop_name(*o, &ts)).collect::<Vec<_>>()}));
                    }
                }
                Ok(Err((c, d))) => run.violation(&c, json!({"leg": "hash_index", "key_columns": cols, "history": h.iter().map(|o| hop_name(*o, &ts)).collect::<Vec<_>>()}), d),
                Err(p) => run.violation("hash_index:panic", json!({"leg": "hash_index", "key_columns": cols, "history": h.iter().map(|o| hop_name(*o, &ts)).collect::<Vec<_>>()}), crate::e1::panic_msg(&p)),
            }
        });
        traces += done as u64;
        transitions += (done * len) as u64;
        if done < total {
            break;
        }
        completed_h = len;
    }
    run.put("hash_index_depth_completed", json!(completed_h));
    run.put("hash_index_alphabet", json!(alpha.len()));
    run.put("states", json!(states.lock().unwrap().len()));
    run.put("transitions", json!(transitions));
    run.put("traces_validated_against_impl", json!(traces));
    long_history_leg(&run);
    run.finish()
}

/// Long-history leg: capacity is where a probabilistic index can start to lose keys (filters sized for an expected
/// number of keys, rebuilds, resizes). One deterministic history per (expected_keys, pattern): N distinct keys are
/// inserted one by one (pattern "mixed" also removes every third key again and rebuilds once); after EVERY step
/// the key just inserted must be found through every Bloom-guarded path, and at every 50th step all live keys are
/// probed. Every prefix length up to N is therefore checked.
fn long_history_leg(run: &Run) {
    let n: i64 = if run.quick() { 1500 } else { 6000 };
    let mut steps = 0u64;
    for expected in [0usize, 1, 4, 100, 1000] {
        for pattern in ["insert_only", "mixed"] {
            let mut idx = HashIndex::new(JoinKeySpec::new("r", vec![0]), expected);
            let mut bloom = BloomFilter::new(expected.max(1), 0.01);
            let mut live: Vec<i64> = vec![];
            let key = |k: i64| Tuple::new(vec![Value::Int64(k)]);
            let row = |k: i64| Tuple::new(vec![Value::Int64(k), Value::Int64(k % 7)]);
            let mut bad: Option<String> = None;
            for k in 0..n {
                steps += 1;
                run.evaluations.fetch_add(1, std::sync::atomic::Ordering::Relaxed);
                idx.insert(row(k));
                bloom.insert(&key(k));
                live.push(k);
                if pattern == "mixed" && k % 3 == 2 {
                    let victim = live.remove(live.len() / 2);
                    if !idx.remove(&row(victim)) {
                        bad = Some(format!("step {k}: remove({victim}) reports the tuple absent"));
                        break;
                    }
                }
                if pattern == "mixed" && k == n / 2 {
                    idx.build_from_tuples(live.iter().map(|x| row(*x)));
                }
                let check = |x: i64| -> Option<String> {
                    if !idx.might_contain_key(&key(x)) {
                        return Some(format!("might_contain_key({x}) is false for a live key"));
                    }
                    if idx.get_with_bloom(&key(x)).map(|v| v.len()) != Some(1) {
                        return Some(format!("get_with_bloom({x}) does not return the stored tuple (get: {:?})", idx.get(&key(x)).map(|v| v.len())));
                    }
                    if idx.probe(&key(x)).count() != 1 {
                        return Some(format!("probe({x}) returns {} tuples (get: {:?})", idx.probe(&key(x)).count(), idx.get(&key(x)).map(|v| v.len())));
                    }
                    None
                };
                if live.contains(&k) {
                    if let Some(e) = check(k) {
                        bad = Some(format!("step {k} (insert #{}): {e}", k + 1));
                        break;
                    }
                }
                if !bloom.might_contain(&key(k)) {
                    bad = Some(format!("step {k}: BloomFilter::new({}, 0.01) reports inserted key {k} as absent", expected.max(1)));
                    break;
                }
                if k % 50 == 49 {
                    if let Some(e) = live.iter().find_map(|x| check(*x)) {
                        bad = Some(format!("step {k}: {e}"));
                        break;
                    }
                    if idx.len() != live.len() {
                        bad = Some(format!("step {k}: len() = {} but {} tuples are stored", idx.len(), live.len()));
                        break;
                    }
                }
            }
            if let Some(d) = bad {
                run.violation(&format!("long_history:{pattern}:live_key_not_found"), json!({"leg": "long_history", "expected_keys": expected, "pattern": pattern}), format!("HashIndex::new(key [0], expected_keys {expected}), pattern {pattern}, keys 0..{n} inserted one by one: {d}"));
            }
        }
    }
    run.put("long_history_steps", json!(steps));

}
