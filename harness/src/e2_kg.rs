//! E2 HIST on knowledge-graph life cycle and catalogs:
//!   C17 (sequential leg) — KGs are isolated, drops are final (also across restart and re-creation);
//!   C16 (sequential leg) — rule and schema catalogs after a restart are exactly the acknowledged ones.
//! The crash legs (E3) and the interleaving leg (E4) live elsewhere.

use crate::common::*;
use crate::e2_handler::{messages, Env, KgState};
use inputlayer::{Tuple, Value};
use serde_json::json;
use std::collections::{BTreeMap, BTreeSet};
use std::panic::{catch_unwind, AssertUnwindSafe};

fn ta() -> Tuple {
    Tuple::new(vec![Value::Int64(1), Value::Int64(2)])
}
fn tb() -> Tuple {
    Tuple::new(vec![Value::Int64(3), Value::Int64(4)])
}

// ---------------------------------------------------------------------------
// C17

#[derive(Clone, Copy, Debug, PartialEq, Eq, Hash, PartialOrd, Ord, serde::Serialize, serde::Deserialize)]
pub enum K17 {
    Create(u8),
    Drop(u8),
    InsA(u8),
    InsB(u8),
    DelA(u8),
    Rule(u8),
    Schema(u8),
    Save,
    Restart,
}
const KGS: [&str; 2] = ["k1", "k2"];

fn k17_name(o: K17) -> String {
    match o {
        K17::Create(k) => format!("create {}", KGS[k as usize]),
        K17::Drop(k) => format!("drop {}", KGS[k as usize]),
        K17::InsA(k) => format!("{}: ins a", KGS[k as usize]),
        K17::InsB(k) => format!("{}: ins b", KGS[k as usize]),
        K17::DelA(k) => format!("{}: del a", KGS[k as usize]),
        K17::Rule(k) => format!("{}: +p(X,Y) <- r(X,Y)", KGS[k as usize]),
        K17::Schema(k) => format!("{}: +s(a: int)", KGS[k as usize]),
        K17::Save => "save_all".into(),
        K17::Restart => "restart".into(),
    }
}

#[derive(Clone, Debug, Default, PartialEq, Eq, PartialOrd, Ord)]
struct KgModel {
    facts: BTreeSet<String>,
    rule: bool,
    schema: bool,
}
type M17 = BTreeMap<String, KgModel>;

fn observe17(env: &Env) -> Result<M17, String> {
    let kgs = {
        let s = env.handler.get_storage();
        s.list_knowledge_graphs()
    };
    let mut m = M17::new();
    for k in kgs {
        if !KGS.contains(&k.as_str()) {
            continue;
        }
        let st: KgState = env.kg_state(&k);
        let mut km = KgModel::default();
        for (rel, rows) in &st.facts {
            if rel != "r" {
                return Err(format!("KG {k} holds an unexpected relation {rel}"));
            }
            km.facts = rows.clone();
        }
        km.rule = st.rules.contains_key("p");
        if st.rules.keys().any(|r| r != "p") {
            return Err(format!("KG {k} holds unexpected rules {:?}", st.rules.keys()));
        }
        km.schema = st.schemas.contains_key("s");
        m.insert(k, km);
    }
    Ok(m)
}

fn c17_history(h: &[K17]) -> Result<Vec<usize>, (String, String)> {
    let mut env = Some(Env::new("c17"));
    let mut m = M17::new();
    let hs = || h.iter().map(|o| k17_name(*o)).collect::<Vec<_>>().join(" ; ");
    let key = |t: &Tuple| format!("{t:?}");
    let mut sizes = vec![];
    let mut hp = h.to_vec();
    hp.push(K17::Restart);
    for (step, o) in hp.iter().enumerate() {
        let e = env.as_ref().unwrap();
        match *o {
            K17::Create(k) => {
                let name = KGS[k as usize];
                let r = e.handler.get_storage().create_knowledge_graph(name);
                match (r.is_ok(), m.contains_key(name)) {
                    (true, false) => {
                        m.insert(name.to_string(), KgModel::default());
                    }
                    (false, true) => {}
                    (true, true) => return Err(("create_of_existing_kg_acknowledged".into(), format!("history [{}]: step {step}", hs()))),
                    (false, false) => return Err(("create_failed".into(), format!("history [{}]: step {step} {}: {:?}", hs(), k17_name(*o), r.err().map(|x| x.to_string())))),
                }
            }
            K17::Drop(k) => {
                let name = KGS[k as usize];
                let r = e.handler.get_storage().drop_knowledge_graph(name);
                match (r.is_ok(), m.contains_key(name)) {
                    (true, true) => {
                        m.remove(name);
                    }
                    (false, false) => {}
                    (true, false) => return Err(("drop_of_absent_kg_acknowledged".into(), format!("history [{}]: step {step}", hs()))),
                    (false, true) => return Err(("drop_failed".into(), format!("history [{}]: step {step} {}: {:?}", hs(), k17_name(*o), r.err().map(|x| x.to_string())))),
                }
            }
            K17::InsA(k) | K17::InsB(k) | K17::DelA(k) => {
                let name = KGS[k as usize];
                let s = e.handler.get_storage();
                let (r, t, ins) = match *o {
                    K17::InsA(_) => (s.insert_tuples_into(name, "r", vec![ta()]).map(|_| ()), ta(), true),
                    K17::InsB(_) => (s.insert_tuples_into(name, "r", vec![tb()]).map(|_| ()), tb(), true),
                    _ => (s.delete_tuples_from(name, "r", vec![ta()]).map(|_| ()), ta(), false),
                };
                match (r.is_ok(), m.get_mut(name)) {
                    (true, Some(km)) => {
                        if ins {
                            km.facts.insert(key(&t));
                        } else {
                            km.facts.remove(&key(&t));
                        }
                    }
                    (false, None) => {}
                    (true, None) => return Err(("write_to_absent_kg_acknowledged".into(), format!("history [{}]: step {step} {}", hs(), k17_name(*o)))),
                    (false, Some(_)) => return Err(("write_failed".into(), format!("history [{}]: step {step} {}: {:?}", hs(), k17_name(*o), r.err().map(|x| x.to_string())))),
                }
            }
            K17::Rule(k) | K17::Schema(k) => {
                let name = KGS[k as usize];
                let text = if matches!(o, K17::Rule(_)) { "+p(X, Y) <- r(X, Y)" } else { "+s(a: int)" };
                let r = e.query_program(Some(name), text);
                let ok = r.is_ok() && !messages(&r).iter().any(|x| x.contains("failed") || x.contains("not found"));
                match (ok, m.get_mut(name)) {
                    (true, Some(km)) => {
                        if matches!(o, K17::Rule(_)) {
                            km.rule = true;
                        } else {
                            km.schema = true;
                        }
                    }
                    (false, None) => {}
                    (true, None) => return Err(("statement_on_absent_kg_acknowledged".into(), format!("history [{}]: step {step} {}: {:?}", hs(), k17_name(*o), messages(&r)))),
                    (false, Some(_)) => return Err(("statement_failed".into(), format!("history [{}]: step {step} {}: {:?}", hs(), k17_name(*o), messages(&r)))),
                }
            }
            K17::Save => {
                if let Err(x) = e.handler.get_storage().save_all() {
                    return Err(("save_failed".into(), format!("history [{}]: step {step}: {x}", hs())));
                }
            }
            K17::Restart => {
                let old = env.take().unwrap();
                match old.restart() {
                    Ok(n) => env = Some(n),
                    Err(x) => return Err(("restart_failed".into(), format!("history [{}]: step {step}: {x}", hs()))),
                }
            }
        }
        let got = observe17(env.as_ref().unwrap()).map_err(|x| ("unexpected_content".to_string(), format!("history [{}]: after step {step}: {x}", hs())))?;
        sizes.push(got.values().map(|k| k.facts.len()).sum());
        if got != m {
            // classify
            let at_restart = *o == K17::Restart;
            let mut mode = "state_differs".to_string();
            for name in KGS {
                match (got.get(name), m.get(name)) {
                    (Some(_), None) => mode = "dropped_kg_reappeared".into(),
                    (None, Some(_)) => mode = "kg_lost".into(),
                    (Some(g), Some(w)) if g != w => {
                        let touched = match *o {
                            K17::Create(k) | K17::Drop(k) | K17::InsA(k) | K17::InsB(k) | K17::DelA(k) | K17::Rule(k) | K17::Schema(k) => Some(KGS[k as usize]),
                            _ => None,
                        };
                        mode = if touched.is_some() && touched != Some(name) {
                            "operation_changed_another_kg".into()
                        } else if g.facts.len() > w.facts.len() || (g.rule && !w.rule) || (g.schema && !w.schema) {
                            "dropped_or_absent_data_reappeared".into()
                        } else {
                            "data_lost".into()
                        };
                    }
                    _ => {}
                }
            }
            return Err((format!("{mode}:{}", if at_restart { "after_restart" } else { "live" }), format!("history [{}]: after step {step} ({}) the store holds {got:?} but the model {m:?}", hs(), k17_name(*o))));
        }
    }
    Ok(sizes)
}

fn seq_of<T: Copy>(mut idx: usize, len: usize, alpha: &[T]) -> Vec<T> {
    let mut v = vec![alpha[0]; len];
    for i in (0..len).rev() {
        v[i] = alpha[idx % alpha.len()];
        idx /= alpha.len();
    }
    v
}

pub fn c17(args: &Args) -> i32 {
    quiet_panics();
    if let Some(p) = &args.replay {
        let j = read_replay(p);
        if j["case"]["scenario"].is_object() {
            return crate::e4_se::replay(args, "C17");
        }
        let h: Vec<K17> = serde_json::from_value(j["case"]["history"].clone()).expect("history");
        return match c17_history(&h) {
            Ok(_) => {
                println!("replay: property holds on this history");
                0
            }
            Err((c, d)) => {
                println!("class={c} {d}\nVIOLATION property=C17 replay={}", p.display());
                1
            }
        };
    }
    let run = Run::new(args, "model_checking", 55.0, 1500.0);
    let mut alpha: Vec<K17> = vec![];
    for k in 0..2u8 {
        alpha.extend([K17::Create(k), K17::Drop(k), K17::InsA(k), K17::DelA(k), K17::Rule(k)]);
    }
    alpha.extend([K17::InsB(0), K17::Schema(0), K17::Save, K17::Restart]);
    let depth = if run.quick() { 4 } else { 5 };
    run.set_rule("sequential leg: all histories (shortlex) up to the depth bound over 14 symbols on two knowledge graphs {create k, drop k, k: ins a, k: del a, k: +rule} x {k1,k2} + {k1: ins b, k1: +schema, save_all, restart}, plus a final restart, on a real StorageEngine/Handler (auto-create off); after every step the listed KGs and each KG's facts, rule and schema must equal the reference model: an operation on one KG never changes the other, a dropped KG (and its data) never reappears after restart or re-creation, writes to an absent KG are refused. non-trivial = histories that create a KG and write to it; states = distinct (model, depth). INTERLEAVING leg (E4): insert || drop, insert || drop;create, insert || drop of another KG, create || create, drop || query (thorough: 3 threads) on one real engine at the storage-engine and persist scheduling points, all schedules with at most B preemptions; results and final state linearizable against the set model, restart equals the served state (dropped data never reappears), and the directory copied at every step recovers to an explained state");
    let states = std::sync::Mutex::new(BTreeSet::new());
    let mut traces = 0u64;
    let mut transitions = 0u64;
    let mut completed = 0;
    for len in 1..=depth {
        let n = alpha.len().pow(len as u32);
        let done = run.par_for(n, threads(), |idx, l| {
            let h = seq_of(idx, len, &alpha);
            l.eval();
            let creates = h.iter().any(|o| matches!(o, K17::Create(_)));
            let writes = h.iter().any(|o| matches!(o, K17::InsA(_) | K17::InsB(_) | K17::Rule(_) | K17::Schema(_)));
            if creates && writes {
                l.nontrivial(fnv(format!("{h:?}").as_bytes()));
            }
            match catch_unwind(AssertUnwindSafe(|| c17_history(&h))) {
                Ok(Ok(sizes)) => {
                    l.outcome(fnv(format!("{sizes:?}").as_bytes()) % 97);
                    states.lock().unwrap().insert((sizes.clone(), len));
                    if run.want_sample() && idx % 3001 == 11 {
                        run.sample(json!({"history": h.iter().map(|o| k17_name(*o)).collect::<Vec<_>>()}));
                    }
                }
                Ok(Err((c, d))) => run.violation(&c, json!({"history": h, "history_text": h.iter().map(|o| k17_name(*o)).collect::<Vec<_>>()}), d),
                Err(p) => run.violation("panic", json!({"history": h}), crate::e1::panic_msg(&p)),
            }
        });
        traces += done as u64;
        transitions += (done * (len + 1)) as u64;
        if done < n {
            break;
        }
        completed = len;
    }
    // interleaving leg (E4): insert || drop (|| re-create) on the real engine, crash image at every step
    let bound = if run.quick() { 2 } else { 3 };
    let (sched, steps, imgs, dl, b) = crate::e4_se::explore_scenarios(&run, "C17", bound);
    run.put("states", json!(states.lock().unwrap().len() as u64 + steps));
    run.put("transitions", json!(transitions + steps));
    run.put("traces_validated_against_impl", json!(traces + sched));
    run.put("max_depth_completed", json!(completed));
    run.put("depth_bound", json!(depth));
    run.put("interleaving_schedules", json!(sched));
    run.put("interleaving_scheduling_points", json!(steps));
    run.put("interleaving_crash_images_recovered", json!(imgs));
    run.put("interleaving_deadlocks", json!(dl));
    run.put("interleaving_preemption_bound_completed", json!(b));
    run.finish()
}

// ---------------------------------------------------------------------------
// C16 (sequential leg)

pub const C16_OPS: [&str; 12] = [
    "+p(X) <- e(X)",
    "+p(X) <- f(X)",
    "+g(X) <- e(X), f(X)",
    ".rule drop p",
    ".rule clear p",
    ".rule remove p 1",
    ".rule edit p 1 p(X) <- f(X), e(X)",
    "+s(a: int)",
    "+s2(a: int, b: string)",
    "remove schema s",
    "save_all",
    "restart",
];

fn catalog(env: &Env) -> (BTreeMap<String, String>, BTreeMap<String, String>) {
    let st = env.kg_state("A");
    (st.rules, st.schemas)
}

fn acked(r: &Result<inputlayer::protocol::wire::QueryResult, String>) -> bool {
    r.is_ok() && !messages(r).iter().any(|x| x.contains("failed") || x.contains("not found") || x.contains("No rule") || x.contains("out of") || x.starts_with("Error") || x.contains("does not exist") || x.contains("Invalid"))
}

fn c16_history(h: &[usize]) -> Result<usize, (String, String)> {
    let mut env = Some(Env::new("c16"));
    env.as_ref().unwrap().create_kg("A");
    let hs = || h.iter().map(|i| C16_OPS[*i]).collect::<Vec<_>>().join(" ; ");
    let mut hp = h.to_vec();
    hp.push(11);
    let mut names_model: BTreeSet<String> = BTreeSet::new(); // rule names that must be listed (light model of acknowledged ops)
    let mut schemas_model: BTreeSet<String> = BTreeSet::new();
    for (step, op) in hp.iter().enumerate() {
        let e = env.as_ref().unwrap();
        let before = catalog(e);
        match *op {
            0..=8 => {
                let r = e.query_program(Some("A"), C16_OPS[*op]);
                if acked(&r) {
                    match *op {
                        0 | 1 => {
                            names_model.insert("p".into());
                        }
                        2 => {
                            names_model.insert("g".into());
                        }
                        3 => {
                            names_model.remove("p");
                        }
                        7 => {
                            schemas_model.insert("s".into());
                        }
                        8 => {
                            schemas_model.insert("s2".into());
                        }
                        _ => {}
                    }
                } else {
                    // a refused operation must leave the catalogs as they were
                    let after = catalog(e);
                    if after != before {
                        return Err(("refused_operation_changed_catalog".into(), format!("history [{}]: step {step} `{}` was refused ({:?}) but the catalogs changed from {before:?} to {after:?}", hs(), C16_OPS[*op], messages(&r))));
                    }
                }
            }
            9 => {
                let r = e.handler.get_storage().remove_schema_in("A", "s");
                if r.is_ok() {
                    schemas_model.remove("s");
                }
            }
            10 => {
                if let Err(x) = e.handler.get_storage().save_all() {
                    return Err(("save_failed".into(), format!("history [{}]: step {step}: {x}", hs())));
                }
            }
            _ => {
                let old = env.take().unwrap();
                match old.restart() {
                    Ok(n) => env = Some(n),
                    Err(x) => return Err(("restart_failed".into(), format!("history [{}]: step {step}: {x}", hs()))),
                }
                let after = catalog(env.as_ref().unwrap());
                if after != before {
                    let what = if after.0 != before.0 { "rules" } else { "schemas" };
                    let mode = if (after.0.len(), after.1.len()) < (before.0.len(), before.1.len()) { "lost" } else { "changed_or_resurrected" };
                    return Err((format!("catalog_differs_after_restart:{what}:{mode}"), format!("history [{}]: restart at step {step}: before {before:?}, after {after:?}", hs())));
                }
            }
        }
        // acknowledged registrations are listed, acknowledged drops are not
        let (rules, schemas) = catalog(env.as_ref().unwrap());
        for n in ["p", "g"] {
            // `.rule clear` / `.rule remove` may legitimately empty or unlist a rule: only the positive direction
            // is asserted right after the acknowledging step
            let just = matches!((*op, n), (0, "p") | (1, "p") | (2, "g"));
            if just && names_model.contains(n) && !rules.contains_key(n) {
                return Err(("acknowledged_rule_not_listed".into(), format!("history [{}]: after step {step} `{}` rule {n} is not listed: {rules:?}", hs(), C16_OPS[*op])));
            }
            if *op == 3 && n == "p" && !names_model.contains("p") && rules.contains_key("p") {
                return Err(("dropped_rule_still_listed".into(), format!("history [{}]: after step {step} rule p is still listed", hs())));
            }
        }
        for n in ["s", "s2"] {
            if schemas_model.contains(n) != schemas.contains_key(n) {
                return Err(("schema_catalog_differs_from_acknowledged".into(), format!("history [{}]: after step {step} `{}` schemas listed {:?}, acknowledged {schemas_model:?}", hs(), C16_OPS[*op], schemas.keys())));
            }
        }
    }
    let (r, s) = catalog(env.as_ref().unwrap());
    Ok(r.len() * 10 + s.len())
}

pub fn c16_seq(args: &Args, run: &Run) {
    let _ = args;
    let depth = if run.quick() { 4 } else { 5 };
    let n_alpha = C16_OPS.len();
    let states = std::sync::Mutex::new(BTreeSet::new());
    let mut traces = 0u64;
    let mut transitions = 0u64;
    let mut completed = 0;
    for len in 1..=depth {
        let n = n_alpha.pow(len as u32);
        let idxs: Vec<usize> = (0..n_alpha).collect();
        let done = run.par_for(n, threads(), |idx, l| {
            let h = seq_of(idx, len, &idxs);
            l.eval();
            if h.iter().any(|o| *o <= 9) {
                l.nontrivial(fnv(format!("c16{h:?}").as_bytes()));
            }
            match catch_unwind(AssertUnwindSafe(|| c16_history(&h))) {
                Ok(Ok(k)) => {
                    l.outcome(k as u64);
                    states.lock().unwrap().insert((k, len));
                    if run.want_sample() && idx % 2003 == 5 {
                        run.sample(json!({"leg": "sequential", "history": h.iter().map(|o| C16_OPS[*o]).collect::<Vec<_>>()}));
                    }
                }
                Ok(Err((c, d))) => run.violation(&format!("seq:{c}"), json!({"leg": "sequential", "history_idx": h, "history": h.iter().map(|o| C16_OPS[*o]).collect::<Vec<_>>()}), d),
                Err(p) => run.violation("seq:panic", json!({"leg": "sequential", "history_idx": h}), crate::e1::panic_msg(&p)),
            }
        });
        traces += done as u64;
        transitions += (done * (len + 1)) as u64;
        if done < n {
            break;
        }
        completed = len;
    }
    run.put("seq_states", json!(states.lock().unwrap().len()));
    run.put("seq_transitions", json!(transitions));
    run.put("seq_histories", json!(traces));
    run.put("seq_max_depth_completed", json!(completed));
}

pub fn c16_replay_seq(h: &[usize]) -> Option<(String, String)> {
    c16_history(h).err()
}

pub fn c16(args: &Args) -> i32 {
    quiet_panics();
    if let Some(p) = &args.replay {
        let j = read_replay(p);
        if j["case"]["leg"] == "sequential" {
            let h: Vec<usize> = serde_json::from_value(j["case"]["history_idx"].clone()).expect("history_idx");
            return match c16_replay_seq(&h) {
                None => {
                    println!("replay: property holds on this history");
                    0
                }
                Some((c, d)) => {
                    println!("class={c} {d}\nVIOLATION property=C16 replay={}", p.display());
                    1
                }
            };
        }
        return crate::e3::c16_replay(args, &j);
    }
    let run = Run::new(args, "fault_enumeration", 110.0, 1500.0);
    run.set_rule("two legs. SEQUENTIAL: all histories up to depth 4/5 over 12 symbols (register p <- e, 2nd clause p <- f, register g, .rule drop / clear / remove / edit, two schema registrations, schema removal, save_all, restart) + final restart through the Handler: the rule and schema catalogs after every restart equal the catalogs served just before it, refused operations change nothing, acknowledged registrations are listed. CRASH: see crash_* keys - every file-system mutation boundary of recorded catalog histories x every admissible loss of unsynced state, recovery must succeed with the old or the new catalog, never an empty or unreadable one. non-trivial = histories with at least one catalog operation / crash images that differ from the clean final image");
    c16_seq(args, &run);
    crate::e3::c16_crash_leg(args, &run);
    run.finish()
}
