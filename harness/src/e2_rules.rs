//! C34 — recursion through negation is never evaluated; every stratified rule set is accepted.
//! Exhaustive over rule sets x every split between persistent and session rules (E1 over rule sets,
//! driven through the real Handler).

use crate::common::*;
use crate::e2_handler::{messages, Env};
use crate::gen::*;
use crate::r1::*;
use inputlayer::{Tuple, Value};
use serde_json::json;
use std::collections::{BTreeMap, BTreeSet};
use std::panic::{catch_unwind, AssertUnwindSafe};

const PREDS: [&str; 3] = ["a", "b", "c"];

/// Clause candidates: head h(X) <- n(X) [, (!)p(X)]{0..max_lits}
fn clause_candidates(npreds: usize, max_lits: usize) -> Vec<Clause> {
    let mut lits: Vec<Lit> = vec![];
    for p in &PREDS[..npreds] {
        lits.push(pos(p, &[X]));
        lits.push(neg(p, &[X]));
    }
    let mut bodies: Vec<Vec<Lit>> = vec![vec![]];
    for l in &lits {
        bodies.push(vec![l.clone()]);
    }
    if max_lits >= 2 {
        for i in 0..lits.len() {
            for j in (i + 1)..lits.len() {
                bodies.push(vec![lits[i].clone(), lits[j].clone()]);
            }
        }
    }
    let mut out = vec![];
    for h in &PREDS[..npreds] {
        for b in &bodies {
            let mut body = vec![pos("n", &[X])];
            body.extend(b.iter().cloned());
            out.push(clause(h, &[X], body));
        }
    }
    out
}

fn subsets(n: usize, k_max: usize) -> Vec<Vec<usize>> {
    let mut out = vec![];
    fn rec(start: usize, n: usize, k: usize, cur: &mut Vec<usize>, out: &mut Vec<Vec<usize>>) {
        if !cur.is_empty() {
            out.push(cur.clone());
        }
        if cur.len() == k {
            return;
        }
        for i in start..n {
            cur.push(i);
            rec(i + 1, n, k, cur, out);
            cur.pop();
        }
    }
    rec(0, n, k_max, &mut vec![], &mut out);
    out
}

/// every referenced IDB predicate has at least one clause
fn closed(cl: &[Clause]) -> bool {
    let heads: BTreeSet<&str> = cl.iter().map(|c| c.rel.as_str()).collect();
    cl.iter().all(|c| {
        c.body.iter().all(|l| match l {
            Lit::Pos(a) | Lit::Neg(a) => a.rel == "n" || heads.contains(a.rel.as_str()),
            _ => true,
        })
    })
}

/// predicates whose evaluation needs a predicate of a negative cycle
fn tainted(cl: &[Clause]) -> BTreeSet<String> {
    let p = Program { clauses: cl.to_vec() };
    let mut bad: BTreeSet<String> = BTreeSet::new();
    for comp in sccs(&p) {
        let set: BTreeSet<&str> = comp.iter().map(|s| s.as_str()).collect();
        let neg_inside = cl.iter().any(|c| set.contains(c.rel.as_str()) && c.body.iter().any(|l| matches!(l, Lit::Neg(a) if set.contains(a.rel.as_str()))));
        if neg_inside {
            bad.extend(comp.iter().cloned());
        }
    }
    // dependents
    loop {
        let mut grew = false;
        for c in cl {
            if !bad.contains(&c.rel) && c.body.iter().any(|l| matches!(l, Lit::Pos(a) | Lit::Neg(a) if bad.contains(&a.rel))) {
                bad.insert(c.rel.clone());
                grew = true;
            }
        }
        if !grew {
            break;
        }
    }
    bad
}

fn rejected(r: &Result<inputlayer::protocol::wire::QueryResult, String>) -> bool {
    r.is_err()
}

/// One case: clause set, split mask (bit i set = clause i is a persistent rule), registration order variant.
/// Returns violations (class, detail).
fn c34_one(cl: &[Clause], mask: u32, session_first: bool) -> Vec<(String, String)> {
    let env = Env::new("c34");
    env.create_kg("A");
    env.insert("A", "n", vec![Tuple::new(vec![Value::Int64(1)]), Tuple::new(vec![Value::Int64(2)])]);
    let sid = match env.handler.create_session("A") {
        Ok(s) => s,
        Err(e) => return vec![("machinery:create_session".into(), e)],
    };
    let mut accepted: Vec<Clause> = vec![];
    let mut out = vec![];
    let desc = |cl: &[Clause]| cl.iter().enumerate().map(|(i, c)| format!("{}{}", if mask & (1 << i) != 0 { "+" } else { "" }, fmt_clause(c))).collect::<Vec<_>>().join(" ; ");
    let mut order: Vec<usize> = (0..cl.len()).filter(|i| (mask & (1 << i) != 0) != session_first).collect();
    order.extend((0..cl.len()).filter(|i| (mask & (1 << i) != 0) == session_first));
    for i in order {
        let c = &cl[i];
        let persistent = mask & (1 << i) != 0;
        let text = if persistent { format!("+{}", fmt_clause(c)) } else { fmt_clause(c) };
        let r = if persistent { env.query_program(Some("A"), &text) } else { env.run(Some(&sid), None, &text, None) };
        let mut trial = accepted.clone();
        trial.push(c.clone());
        let strat_ok = unstratifiable(&Program { clauses: trial.clone() }).is_none();
        if rejected(&r) {
            if strat_ok {
                out.push((
                    format!("stratified_rule_rejected:{}", if persistent { "persistent" } else { "session" }),
                    format!("rule set [{}]: registering `{text}` was rejected although the accepted rules plus this one are stratified: {:?}", desc(cl), messages(&r)),
                ));
                return out;
            }
            // rejected and genuinely unstratifiable: fine, the clause contributes nothing
        } else {
            accepted.push(c.clone());
        }
    }
    // query every defined predicate through the session (sees persistent + session rules)
    let bad = tainted(&accepted);
    let heads: BTreeSet<String> = accepted.iter().map(|c| c.rel.clone()).collect();
    let mixed = if mask == 0 { "session_only" } else if mask == (1u32 << cl.len()) - 1 { "persistent_only" } else { "mixed" };
    for h in &heads {
        let r = env.run(Some(&sid), None, &format!("?{h}(X)"), None);
        if bad.contains(h) {
            if !rejected(&r) {
                let rows: Vec<String> = r.as_ref().map(|q| q.rows.iter().map(|x| format!("{:?}", x.values)).collect()).unwrap_or_default();
                out.push((
                    format!("recursion_through_negation_evaluated:{mixed}"),
                    format!("rule set [{}] (+ = persistent, others session rules; all accepted: [{}]): ?{h}(X) depends on recursion through negation but was answered: {rows:?}", desc(cl), accepted.iter().map(fmt_clause).collect::<Vec<_>>().join(" ; ")),
                ));
                break;
            }
        } else {
            match &r {
                // the property wants a rule set with recursion through negation REJECTED; session rules are only
                // looked at when a query runs, so rejecting every query of a session that holds such rules is that
                // rejection - also for a predicate that does not itself depend on the negative cycle
                Err(_) if !bad.is_empty() => continue,
                Err(e) => {
                    out.push((format!("stratified_query_rejected:{mixed}"), format!("rule set [{}] (stratified as a whole): ?{h}(X) was rejected: {e}", desc(cl))));
                    break;
                }
                Ok(q) => {
                    // answers per R1 (skipped for positive SCCs of >= 2 predicates: C01's known finding)
                    let prog = {
                        let mut c2 = accepted.clone();
                        c2.push(clause("q", &[X], vec![pos(h, &[X])]));
                        Program { clauses: c2 }
                    };
                    if sccs(&prog).iter().any(|c| c.len() >= 2) {
                        continue;
                    }
                    let mut db = Db::new();
                    db.insert("n".into(), [vec![1], vec![2]].into_iter().collect());
                    if let Ok(exp) = eval_query(&prog, &db) {
                        let got: BTreeSet<String> = q.rows.iter().map(|x| format!("{:?}", x.values)).collect();
                        if got.len() != exp.len() {
                            out.push((format!("stratified_answer_differs_from_reference:{mixed}"), format!("rule set [{}]: ?{h}(X) returned {got:?}, reference has {} rows", desc(cl), exp.len())));
                            break;
                        }
                    }
                }
            }
        }
    }
    out
}

pub fn c34(args: &Args) -> i32 {
    quiet_panics();
    let run = Run::new(args, "model_checking", 55.0, 1500.0);
    let (npreds, max_lits, max_clauses) = if run.quick() { (2, 2, 3) } else { (3, 2, 3) };
    let cands = clause_candidates(npreds, max_lits);
    let sets: Vec<Vec<usize>> = subsets(cands.len(), max_clauses).into_iter().filter(|s| closed(&s.iter().map(|i| cands[*i].clone()).collect::<Vec<_>>())).collect();
    if let Some(p) = &args.replay {
        let j = read_replay(p);
        let cl: Vec<Clause> = serde_json::from_value(j["case"]["clauses"].clone()).expect("clauses");
        let mask = j["case"]["mask"].as_u64().unwrap() as u32;
        let sf = j["case"]["session_first"].as_bool().unwrap_or(false);
        let v = c34_one(&cl, mask, sf);
        for (c, d) in &v {
            println!("class={c} {d}");
        }
        if !v.is_empty() {
            println!("VIOLATION property=C34 replay={}", p.display());
        }
        return (!v.is_empty()) as i32;
    }
    run.set_rule("all closed rule sets of <= K clauses h(X) <- n(X)[, (!)p(X)]{0..2} over predicates {a,b}(quick)/{a,b,c}(thorough), EVERY split of the set between persistent rules (+rule, one request each via Handler::query_program) and session rules (one request each via Handler::execute_program with a session), both registration orders (persistent first / session first); then ?h(X) through the session for every defined head. Oracle (own SCC computation): a registration may be rejected only if the accepted rules plus the new one have a negative edge inside an SCC; a query on a predicate that depends on a negative cycle must be rejected (never answered); any other query must be answered (and, for sets without multi-predicate SCCs, with the reference answer's size). non-trivial = cases whose rule set contains at least one negated literal; states = distinct (stratifiable?, split kind)");
    run.put("clause_candidates", json!(cands.len()));
    run.put("rule_sets", json!(sets.len()));
    // cases: set x mask x order
    let mut cases: Vec<(usize, u32, bool)> = vec![];
    for (si, s) in sets.iter().enumerate() {
        for mask in 0..(1u32 << s.len()) {
            cases.push((si, mask, false));
            if mask != 0 && mask != (1u32 << s.len()) - 1 {
                cases.push((si, mask, true));
            }
        }
    }
    run.put("cases", json!(cases.len()));
    let states = std::sync::Mutex::new(BTreeSet::new());
    let done = run.par_for(cases.len(), threads(), |i, l| {
        let (si, mask, sf) = cases[i];
        let cl: Vec<Clause> = sets[si].iter().map(|k| cands[*k].clone()).collect();
        l.eval();
        let has_neg = cl.iter().any(|c| c.body.iter().any(|x| matches!(x, Lit::Neg(_))));
        if has_neg {
            l.nontrivial(i as u64);
        }
        let unstrat = unstratifiable(&Program { clauses: cl.clone() }).is_some();
        let r = catch_unwind(AssertUnwindSafe(|| c34_one(&cl, mask, sf)));
        match r {
            Ok(v) => {
                l.outcome((unstrat as u64) * 2 + v.is_empty() as u64);
                states.lock().unwrap().insert((unstrat, mask == 0, mask == (1u32 << cl.len()) - 1));
                for (c, d) in v {
                    run.violation(&c, json!({"clauses": cl, "mask": mask, "session_first": sf, "text": cl.iter().map(fmt_clause).collect::<Vec<_>>()}), d);
                }
                if run.want_sample() && i % 997 == 3 {
                    run.sample(json!({"rules": cl.iter().map(fmt_clause).collect::<Vec<_>>(), "persistent_mask": mask, "session_first": sf, "recursion_through_negation": unstrat}));
                }
            }
            Err(p) => run.violation("panic", json!({"clauses": cl, "mask": mask, "session_first": sf}), crate::e1::panic_msg(&p)),
        }
    });
    run.put("states", json!(states.lock().unwrap().len()));
    run.put("transitions", json!(done * 4));
    run.put("traces_validated_against_impl", json!(done));
    let _ = BTreeMap::<u8, u8>::new();
    run.finish()
}


// ---------------------------------------------------------------------------
// C09 — a rule means the same inline, as a session rule, as a persistent rule (before and after restart)

#[derive(Clone, Debug)]
pub struct RuleCase {
    pub text: String,
    pub arity: usize,
    pub tag: &'static str,
}

fn arith_exprs(depth3: bool) -> Vec<(String, &'static str)> {
    let leaves = ["Z", "2", "3", "2.0", "0.5"];
    let ops = ["+", "-", "*", "/", "%"];
    let mut out: Vec<(String, &'static str)> = vec![];
    let ftag = |s: &str| if s.contains('.') { "arith_float_const" } else { "arith" };
    for a in leaves {
        out.push((a.to_string(), ftag(a)));
        for o in ops {
            for b in leaves {
                let e = format!("{a} {o} {b}");
                out.push((e.clone(), ftag(&e)));
            }
        }
    }
    if depth3 {
        for a in leaves {
            for o1 in ops {
                for b in leaves {
                    for o2 in ops {
                        for c in leaves {
                            for shape in 0..3 {
                                let e = match shape {
                                    0 => format!("{a} {o1} {b} {o2} {c}"),
                                    1 => format!("({a} {o1} {b}) {o2} {c}"),
                                    _ => format!("{a} {o1} ({b} {o2} {c})"),
                                };
                                let t = if e.contains('.') { "arith3_float_const" } else { "arith3" };
                                out.push((e, t));
                            }
                        }
                    }
                }
            }
        }
    }
    out
}

pub fn c09_rules(quick: bool) -> Vec<RuleCase> {
    let mut out = vec![];
    let mut push = |text: String, arity: usize, tag: &'static str| out.push(RuleCase { text, arity, tag });
    // arithmetic with precedence / associativity / float and int constants
    let all = arith_exprs(true);
    for (i, (e, tag)) in all.iter().enumerate() {
        // quick: every 2-leaf expression and every 7th 3-leaf expression (deterministic sub-family)
        if quick && tag.starts_with("arith3") && i % 7 != 0 {
            continue;
        }
        push(format!("h(X, Y) <- e(X, Z), Y = {e}"), 2, tag);
    }
    // unary minus and negative constants
    for e in ["-Z", "0 - Z", "Z * -1", "Z + -2.5", "-2.5", "-(Z + 1)", "2 - -Z"] {
        push(format!("h(X, Y) <- e(X, Z), Y = {e}"), 2, "unary_minus");
    }
    // float constants in head, comparison and arithmetic
    for c in ["2.0", "0.5", "-0.0", "1e3", "1e-7", "1e21", "3.0e0", "100.0", "-2.5", "1.0e0", "0.1"] {
        push(format!("h(X, {c}) <- e(X, _)"), 2, "float_const_head");
        push(format!("h(X) <- f(X, Y), Y > {c}"), 1, "float_const_cmp");
        push(format!("h(X, Y) <- e(X, Z), Y = Z + {c}"), 2, "float_const_arith");
        push(format!("h(X) <- f(X, {c})"), 1, "float_const_atom");
    }
    // int constants
    for c in ["0", "1", "-1", "9223372036854775807", "2147483648"] {
        push(format!("h(X, {c}) <- e(X, _)"), 2, "int_const_head");
        push(format!("h(X) <- e(X, {c})"), 1, "int_const_atom");
    }
    // strings
    for c in ["\"\"", "\"a\"", "\"a\\\"b\"", "\"a\\\\b\"", "\"x y\"", "\"\u{e9}\"", "\"a,b\"", "\"it's\"", "\"%c\"", "\"// c\"", "\"a)\"", "\"<-\""] {
        push(format!("h(X) <- s(X, {c})"), 1, "string_const_atom");
        push(format!("h(X, {c}) <- e(X, _)"), 2, "string_const_head");
        push(format!("h(X) <- s(X, Y), Y != {c}"), 1, "string_const_cmp");
    }
    // booleans
    push("h(X) <- b(X, true)".into(), 1, "bool_const");
    push("h(X, false) <- e(X, _)".into(), 2, "bool_const");
    // vectors and function calls
    for vv in ["[1.0, 2.0]", "[1, 2]", "[0.5, -1.5]", "[1e3, 2.0]", "[1.0,2.0]"] {
        push(format!("h(X, D) <- v(X, V), D = euclidean(V, {vv})"), 2, "vector_literal");
    }
    for f in ["abs(Z)", "abs(Z - 2)", "pow(Z, 2)", "sqrt(abs(Z))", "to_float(Z)", "min_val(Z, 2)", "max_val(Z, 2.0)", "floor(0.5 + Z)", "sign(Z)"] {
        push(format!("h(X, Y) <- e(X, Z), Y = {f}"), 2, "function_call");
    }
    push("h(X, Y) <- s(X, S), Y = len(S)".into(), 2, "function_call");
    push("h(X, Y) <- s(X, S), Y = concat(S, \"!\")".into(), 2, "function_call");
    push("h(X, Y) <- s(X, S), Y = upper(S)".into(), 2, "function_call");
    // aggregates
    for a in ["count", "count_distinct", "sum", "min", "max", "avg"] {
        push(format!("h(X, {a}<Z>) <- e(X, Z)"), 2, "aggregate");
        push(format!("h({a}<Z>) <- e(_, Z)"), 1, "aggregate");
    }
    // negation, comparisons, wildcards, repeated variables
    push("h(X) <- e(X, _), !b(X, true)".into(), 1, "negation");
    push("h(X) <- e(X, Z), !e(Z, X)".into(), 1, "negation");
    for op in ["=", "!=", "<", "<=", ">", ">="] {
        push(format!("h(X) <- e(X, Z), Z {op} 1"), 1, "comparison");
        push(format!("h(X) <- e(X, Z), X {op} Z"), 1, "comparison");
    }
    push("h(X) <- e(X, X)".into(), 1, "repeated_var");
    push("h(X, X) <- e(X, _)".into(), 2, "repeated_var");
    out
}

fn env_facts() -> Vec<(&'static str, Vec<inputlayer::Tuple>)> {
    use inputlayer::{Tuple as T, Value as V};
    let i = |x: i64| V::Int64(x);
    let strs = ["", "a", "a\"b", "a\\b", "x y", "\u{e9}", "a,b", "it's", "%c", "// c", "a)", "<-"];
    vec![
        ("e", vec![T::new(vec![i(1), i(1)]), T::new(vec![i(2), i(3)]), T::new(vec![i(3), i(-4)])]),
        ("f", vec![T::new(vec![i(1), V::Float64(1.5)]), T::new(vec![i(2), V::Float64(-0.25)]), T::new(vec![i(3), V::Float64(2.0)]), T::new(vec![i(4), V::Float64(1000.0)])]),
        ("s", strs.iter().enumerate().map(|(k, s)| T::new(vec![i(k as i64 + 1), V::string(s)])).collect()),
        ("b", vec![T::new(vec![i(1), V::Bool(true)]), T::new(vec![i(2), V::Bool(false)])]),
        ("v", vec![T::new(vec![i(1), V::vector(vec![1.0, 2.0])]), T::new(vec![i(2), V::vector(vec![0.0, 0.5])])]),
    ]
}

fn c09_setup(env: &Env) {
    env.create_kg("A");
    for (rel, rows) in env_facts() {
        env.insert("A", rel, rows);
    }
}

type Ans = Result<BTreeSet<String>, String>;

fn answer(r: Result<inputlayer::protocol::wire::QueryResult, String>) -> Ans {
    match r {
        Err(e) => Err(e),
        Ok(q) => {
            // a message row (no schema match) is an acknowledgement, not an answer; queries return typed rows
            Ok(q.rows.iter().map(|t| format!("{:?}", t.values)).collect())
        }
    }
}

fn same(a: &Ans, b: &Ans) -> bool {
    match (a, b) {
        (Ok(x), Ok(y)) => x == y,
        (Err(_), Err(_)) => true,
        _ => false,
    }
}

/// Returns (violations, accepted?)
fn c09_one(rc: &RuleCase) -> (Vec<(String, String)>, bool) {
    let env = Env::new("c09");
    c09_setup(&env);
    let vars: Vec<String> = (0..rc.arity).map(|k| format!("Q{k}")).collect();
    let query = format!("?h({})", vars.join(", "));
    // inline: the rule and the query in one program
    let inline = answer(env.query_program(Some("A"), &format!("{}\n{query}", rc.text)));
    // session rule
    let session = match env.handler.create_session("A") {
        Err(e) => Err(format!("create_session: {e}")),
        Ok(sid) => match env.run(Some(&sid), None, &rc.text, None) {
            Err(e) => Err(e),
            Ok(_) => answer(env.run(Some(&sid), None, &query, None)),
        },
    };
    // persistent rule
    let reg = env.query_program(Some("A"), &format!("+{}", rc.text));
    let (persistent, restarted) = match reg {
        Err(e) => (Err(e.clone()), Err(e)),
        Ok(_) => {
            let p = answer(env.query_program(Some("A"), &query));
            let r = match env.restart() {
                Err(e) => Err(format!("restart failed: {e}")),
                Ok(env2) => answer(env2.query_program(Some("A"), &query)),
            };
            (p, r)
        }
    };
    // reference: the parsed rule handed to the engine without any printing step (IQLEngine on the same facts)
    let direct: Ans = {
        let s = env_facts();
        let mut eng = inputlayer::IQLEngine::new();
        for (rel, rows) in s {
            eng.add_tuples(rel, rows);
        }
        let qrule = format!("q__({}) <- h({})", vars.join(", "), vars.join(", "));
        match catch_unwind(AssertUnwindSafe(|| eng.execute_tuples(&format!("{}\n{qrule}", rc.text)))) {
            Ok(Ok(ts)) => Ok(ts.iter().map(|t| format!("{:?}", t.values().iter().map(inputlayer::protocol::wire::WireValue::from_value).collect::<Vec<_>>())).collect()),
            Ok(Err(e)) => Err(e),
            Err(_) => Err("engine panicked".into()),
        }
    };
    let paths = [("direct_engine", &direct), ("inline", &inline), ("session", &session), ("persistent", &persistent), ("persistent_after_restart", &restarted)];
    let accepted = paths.iter().any(|(_, a)| a.is_ok());
    let mut out = vec![];
    for k in 1..paths.len() {
        if !same(paths[0].1, paths[k].1) {
            let show = |a: &Ans| match a {
                Ok(s) => format!("{:?}", s.iter().take(6).collect::<Vec<_>>()),
                Err(e) => format!("REJECTED({})", truncate(e, 100)),
            };
            let mode = match (paths[0].1, paths[k].1) {
                (Ok(_), Ok(_)) => "answers_differ",
                (Ok(_), Err(_)) => "rejected_on_this_path",
                _ => "accepted_only_on_this_path",
            };
            out.push((format!("{}:{}:{mode}", rc.tag, paths[k].0), format!("rule `{}`: handed to the engine as parsed it answers {} but as {} {}", rc.text, show(paths[0].1), paths[k].0, show(paths[k].1))));
        }
    }
    (out, accepted)
}

pub fn c09(args: &Args) -> i32 {
    quiet_panics();
    let run = Run::new(args, "model_checking", 55.0, 1500.0);
    let rules = c09_rules(run.quick());
    if let Some(p) = &args.replay {
        let j = read_replay(p);
        let rc = RuleCase { text: j["case"]["rule"].as_str().unwrap().to_string(), arity: j["case"]["arity"].as_u64().unwrap() as usize, tag: "replay" };
        let (v, _) = c09_one(&rc);
        for (c, d) in &v {
            println!("class={c} {d}");
        }
        if !v.is_empty() {
            println!("VIOLATION property=C09 replay={}", p.display());
        }
        return (!v.is_empty()) as i32;
    }
    run.set_rule("rule texts generated from a term grammar: every arithmetic expression of 1-2 (quick: plus every 7th; thorough: all) 3-leaf trees over {Z,2,3,2.0,0.5} x {+,-,*,/,%} in all three parenthesisations; unary minus forms; float constants (integral, exponent, negative zero) in head / atom / comparison / arithmetic; int constants incl. > i32; 12 string constants (empty, quotes, backslashes, non-ASCII, comment-like) in atom / head / comparison; booleans; vector literals; function calls; every aggregate; negation; all comparison operators; repeated variables. Each rule is evaluated five ways on the same facts: parsed and handed to IQLEngine directly (no printing step: the reference), and through the Handler inline with its query in one program, as a session rule, as a persistent rule, and queried again after a clean restart. All five typed answers (value AND value kind) must be identical; a rule accepted on one path must be accepted on all. non-trivial = rules accepted on at least one path; states = distinct rule tags");
    run.put("rules", json!(rules.len()));
    let states = std::sync::Mutex::new(BTreeSet::new());
    let done = run.par_for(rules.len(), threads(), |i, l| {
        let rc = &rules[i];
        l.eval();
        let r = catch_unwind(AssertUnwindSafe(|| c09_one(rc)));
        match r {
            Ok((v, accepted)) => {
                if accepted {
                    l.nontrivial(i as u64);
                } else {
                    l.count("rejected_on_every_path_not_a_case", 1);
                }
                l.outcome(fnv(rc.tag.as_bytes()) ^ (v.len() as u64));
                states.lock().unwrap().insert(rc.tag);
                for (c, d) in v {
                    run.violation(&c, json!({"rule": rc.text, "arity": rc.arity}), d);
                }
                if run.want_sample() && i % 157 == 3 {
                    run.sample(json!({"rule": rc.text, "tag": rc.tag}));
                }
            }
            Err(p) => run.violation(&format!("{}:panic", rc.tag), json!({"rule": rc.text, "arity": rc.arity}), crate::e1::panic_msg(&p)),
        }
    });
    run.put("states", json!(states.lock().unwrap().len()));
    run.put("transitions", json!(done * 8));
    run.put("traces_validated_against_impl", json!(done));
    run.finish()
}
