//! C34 — recursion through negation is never evaluated; every stratified rule set is accepted.
//! Exhaustive over rule sets x every split between persistent and session rules (E1 over rule sets,
//! driven through the real Handler).

use crate::common::*;
use crate::e2_handler::{messages, Env};
use crate::gen::*;
use crate::r1::*;
use inputlayer::{Tuple, Value};
use serde_json::json;
use std::collections::{BTreeMap, BTreeSet};
use std::panic::{catch_unwind, AssertUnwindSafe};

const PREDS: [&str; 3] = ["a", "b", "c"];

/// Clause candidates: head h(X) <- n(X) [, (!)p(X)]{0..max_lits}
fn clause_candidates(npreds: usize, max_lits: usize) -> Vec<Clause> {
    let mut lits: Vec<Lit> = vec![];
    for p in &PREDS[..npreds] {
        lits.push(pos(p, &[X]));
        lits.push(neg(p, &[X]));
    }
    let mut bodies: Vec<Vec<Lit>> = vec![vec![]];
    for l in &lits {
        bodies.push(vec![l.clone()]);
    }
    if max_lits >= 2 {
        for i in 0..lits.len() {
            for j in (i + 1)..lits.len() {
                bodies.push(vec![lits[i].clone(), lits[j].clone()]);
            }
        }
    }
    let mut out = vec![];
    for h in &PREDS[..npreds] {
        for b in &bodies {
            let mut body = vec![pos("n", &[X])];
            body.extend(b.iter().cloned());
            out.push(clause(h, &[X], body));
        }
    }
    out
}

fn subsets(n: usize, k_max: usize) -> Vec<Vec<usize>> {
    let mut out = vec![];
    fn rec(start: usize, n: usize, k: usize, cur: &mut Vec<usize>, out: &mut Vec<Vec<usize>>) {
        if !cur.is_empty() {
            out.push(cur.clone());
        }
        if cur.len() == k {
            return;
        }
        for i in start..n {
            cur.push(i);
            rec(i + 1, n, k, cur, out);
            cur.pop();
        }
    }
    rec(0, n, k_max, &mut vec![], &mut out);
    out
}

/// every referenced IDB predicate has at least one clause
fn closed(cl: &[Clause]) -> bool {
    let heads: BTreeSet<&str> = cl.iter().map(|c| c.rel.as_str()).collect();
    cl.iter().all(|c| {
        c.body.iter().all(|l| match l {
            Lit::Pos(a) | Lit::Neg(a) => a.rel == "n" || heads.contains(a.rel.as_str()),
            _ => true,
        })
    })
}

/// predicates whose evaluation needs a predicate of a negative cycle
fn tainted(cl: &[Clause]) -> BTreeSet<String> {
    let p = Program { clauses: cl.to_vec() };
    let mut bad: BTreeSet<String> = BTreeSet::new();
    for comp in sccs(&p) {
        let set: BTreeSet<&str> = comp.iter().map(|s| s.as_str()).collect();
        let neg_inside = cl.iter().any(|c| set.contains(c.rel.as_str()) && c.body.iter().any(|l| matches!(l, Lit::Neg(a) if set.contains(a.rel.as_str()))));
        if neg_inside {
            bad.extend(comp.iter().cloned());
        }
    }
    // dependents
    loop {
        let mut grew = false;
        for c in cl {
            if !bad.contains(&c.rel) && c.body.iter().any(|l| matches!(l, Lit::Pos(a) | Lit::Neg(a) if bad.contains(&a.rel))) {
                bad.insert(c.rel.clone());
                grew = true;
            }
        }
        if !grew {
            break;
        }
    }
    bad
}

fn rejected(r: &Result<inputlayer::protocol::wire::QueryResult, String>) -> bool {
    r.is_err()
}

/// One case: clause set, split mask (bit i set = clause i is a persistent rule), registration order variant.
/// Returns violations (class, detail).
fn c34_one(cl: &[Clause], mask: u32, session_first: bool) -> Vec<(String, String)> {
    let env = Env::new("c34");
    env.create_kg("A");
    env.insert("A", "n", vec![Tuple::new(vec![Value::Int64(1)]), Tuple::new(vec![Value::Int64(2)])]);
    let sid = match env.handler.create_session("A") {
        Ok(s) => s,
        Err(e) => return vec![("machinery:create_session".into(), e)],
    };
    let mut accepted: Vec<Clause> = vec![];
    let mut out = vec![];
    let desc = |cl: &[Clause]| cl.iter().enumerate().map(|(i, c)| format!("{}{}", if mask & (1 << i) != 0 { "+" } else { "" }, fmt_clause(c))).collect::<Vec<_>>().join(" ; ");
    let mut order: Vec<usize> = (0..cl.len()).filter(|i| (mask & (1 << i) != 0) != session_first).collect();
    order.extend((0..cl.len()).filter(|i| (mask & (1 << i) != 0) == session_first));
    for i in order {
        let c = &cl[i];
        let persistent = mask & (1 << i) != 0;
        let text = if persistent { format!("+{}", fmt_clause(c)) } else { fmt_clause(c) };
        let r = if persistent { env.query_program(Some("A"), &text) } else { env.run(Some(&sid), None, &text, None) };
        let mut trial = accepted.clone();
        trial.push(c.clone());
        let strat_ok = unstratifiable(&Program { clauses: trial.clone() }).is_none();
        if rejected(&r) {
            if strat_ok {
                out.push((
                    format!("stratified_rule_rejected:{}", if persistent { "persistent" } else { "session" }),
                    format!("rule set [{}]: registering `{text}` was rejected although the accepted rules plus this one are stratified: {:?}", desc(cl), messages(&r)),
                ));
                return out;
            }
            // rejected and genuinely unstratifiable: fine, the clause contributes nothing
        } else {
            accepted.push(c.clone());
        }
    }
    // query every defined predicate through the session (sees persistent + session rules)
    let bad = tainted(&accepted);
    let heads: BTreeSet<String> = accepted.iter().map(|c| c.rel.clone()).collect();
    let mixed = if mask == 0 { "session_only" } else if mask == (1u32 << cl.len()) - 1 { "persistent_only" } else { "mixed" };
    for h in &heads {
        let r = env.run(Some(&sid), None, &format!("?{h}(X)"), None);
        if bad.contains(h) {
            if !rejected(&r) {
                let rows: Vec<String> = r.as_ref().map(|q| q.rows.iter().map(|x| format!("{:?}", x.values)).collect()).unwrap_or_default();
                out.push((
                    format!("recursion_through_negation_evaluated:{mixed}"),
                    format!("rule set [{}] (+ = persistent, others session rules; all accepted: [{}]): ?{h}(X) depends on recursion through negation but was answered: {rows:?}", desc(cl), accepted.iter().map(fmt_clause).collect::<Vec<_>>().join(" ; ")),
                ));
                break;
            }
        } else {
            match &r {
                Err(e) => {
                    out.push((format!("stratified_query_rejected:{mixed}"), format!("rule set [{}]: ?{h}(X) does not depend on any negative cycle but was rejected: {e}", desc(cl))));
                    break;
                }
                Ok(q) => {
                    // answers per R1 (skipped for positive SCCs of >= 2 predicates: C01's known finding)
                    let prog = {
                        let mut c2 = accepted.clone();
                        c2.push(clause("q", &[X], vec![pos(h, &[X])]));
                        Program { clauses: c2 }
                    };
                    if sccs(&prog).iter().any(|c| c.len() >= 2) {
                        continue;
                    }
                    let mut db = Db::new();
                    db.insert("n".into(), [vec![1], vec![2]].into_iter().collect());
                    if let Ok(exp) = eval_query(&prog, &db) {
                        let got: BTreeSet<String> = q.rows.iter().map(|x| format!("{:?}", x.values)).collect();
                        if got.len() != exp.len() {
                            out.push((format!("stratified_answer_differs_from_reference:{mixed}"), format!("rule set [{}]: ?{h}(X) returned {got:?}, reference has {} rows", desc(cl), exp.len())));
                            break;
                        }
                    }
                }
            }
        }
    }
    out
}

pub fn c34(args: &Args) -> i32 {
    quiet_panics();
    let run = Run::new(args, "model_checking", 55.0, 1500.0);
    let (npreds, max_lits, max_clauses) = if run.quick() { (2, 2, 3) } else { (3, 2, 3) };
    let cands = clause_candidates(npreds, max_lits);
    let sets: Vec<Vec<usize>> = subsets(cands.len(), max_clauses).into_iter().filter(|s| closed(&s.iter().map(|i| cands[*i].clone()).collect::<Vec<_>>())).collect();
    if let Some(p) = &args.replay {
        let j = read_replay(p);
        let cl: Vec<Clause> = serde_json::from_value(j["case"]["clauses"].clone()).expect("clauses");
        let mask = j["case"]["mask"].as_u64().unwrap() as u32;
        let sf = j["case"]["session_first"].as_bool().unwrap_or(false);
        let v = c34_one(&cl, mask, sf);
        for (c, d) in &v {
            println!("class={c} {d}");
        }
        if !v.is_empty() {
            println!("VIOLATION property=C34 replay={}", p.display());
        }
        return (!v.is_empty()) as i32;
    }
    run.set_rule("all closed rule sets of <= K clauses h(X) <- n(X)[, (!)p(X)]{0..2} over predicates {a,b}(quick)/{a,b,c}(thorough), EVERY split of the set between persistent rules (+rule, one request each via Handler::query_program) and session rules (one request each via Handler::execute_program with a session), both registration orders (persistent first / session first); then ?h(X) through the session for every defined head. Oracle (own SCC computation): a registration may be rejected only if the accepted rules plus the new one have a negative edge inside an SCC; a query on a predicate that depends on a negative cycle must be rejected (never answered); any other query must be answered (and, for sets without multi-predicate SCCs, with the reference answer's size). non-trivial = cases whose rule set contains at least one negated literal; states = distinct (stratifiable?, split kind)");
    run.put("clause_candidates", json!(cands.len()));
    run.put("rule_sets", json!(sets.len()));
    // cases: set x mask x order
    let mut cases: Vec<(usize, u32, bool)> = vec![];
    for (si, s) in sets.iter().enumerate() {
        for mask in 0..(1u32 << s.len()) {
            cases.push((si, mask, false));
            if mask != 0 && mask != (1u32 << s.len()) - 1 {
                cases.push((si, mask, true));
            }
        }
    }
    run.put("cases", json!(cases.len()));
    let states = std::sync::Mutex::new(BTreeSet::new());
    let done = run.par_for(cases.len(), threads(), |i, l| {
        let (si, mask, sf) = cases[i];
        let cl: Vec<Clause> = sets[si].iter().map(|k| cands[*k].clone()).collect();
        l.eval();
        let has_neg = cl.iter().any(|c| c.body.iter().any(|x| matches!(x, Lit::Neg(_))));
        if has_neg {
            l.nontrivial(i as u64);
        }
        let unstrat = unstratifiable(&Program { clauses: cl.clone() }).is_some();
        let r = catch_unwind(AssertUnwindSafe(|| c34_one(&cl, mask, sf)));
        match r {
            Ok(v) => {
                l.outcome((unstrat as u64) * 2 + v.is_empty() as u64);
                states.lock().unwrap().insert((unstrat, mask == 0, mask == (1u32 << cl.len()) - 1));
                for (c, d) in v {
                    run.violation(&c, json!({"clauses": cl, "mask": mask, "session_first": sf, "text": cl.iter().map(fmt_clause).collect::<Vec<_>>()}), d);
                }
                if run.want_sample() && i % 997 == 3 {
                    run.sample(json!({"rules": cl.iter().map(fmt_clause).collect::<Vec<_>>(), "persistent_mask": mask, "session_first": sf, "recursion_through_negation": unstrat}));
                }
            }
            Err(p) => run.violation("panic", json!({"clauses": cl, "mask": mask, "session_first": sf}), crate::e1::panic_msg(&p)),
        }
    });
    run.put("states", json!(states.lock().unwrap().len()));
    run.put("transitions", json!(done * 4));
    run.put("traces_validated_against_impl", json!(done));
    let _ = BTreeMap::<u8, u8>::new();
    run.finish()
}
