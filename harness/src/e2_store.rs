//! E2 HIST on the real StorageEngine: C11 (restart reproduces live state),
//! C14 (maintenance invisible), C12 (value round trip).

use crate::common::*;
use crate::e5::{kind, same_tuple};
use inputlayer::{Config, DurabilityMode, StorageEngine, Tuple, Value};
use serde::{Deserialize, Serialize};
use serde_json::json;
use std::collections::BTreeSet;
use std::panic::{catch_unwind, AssertUnwindSafe};
use std::path::Path;

pub fn mk_config(dir: &Path, buffer_size: usize, dur: DurabilityMode, max_wal: Option<u64>) -> Config {
    let mut c = Config::default();
    c.storage.data_dir = dir.to_path_buf();
    c.storage.persist.buffer_size = buffer_size;
    c.storage.persist.durability_mode = dur;
    if let Some(m) = max_wal {
        c.storage.persist.max_wal_size_bytes = m;
    }
    c.storage.performance.num_threads = 0;
    c
}

pub const KG: &str = "default";

#[derive(Clone, Copy, Debug, PartialEq, Eq, Hash, PartialOrd, Ord, Serialize, Deserialize)]
pub enum Op {
    InsA,
    InsB,
    InsAB,
    InsAA,
    /// in-batch duplicate that is not adjacent
    InsABA,
    DelA,
    DelB,
    DelAB,
    Save,
    Compact,
    Restart,
    /// second relation (thorough)
    InsA2,
    DelA2,
}

pub fn op_name(o: Op) -> &'static str {
    match o {
        Op::InsA => "ins a",
        Op::InsB => "ins b",
        Op::InsAB => "ins [a,b]",
        Op::InsAA => "ins [a,a]",
        Op::InsABA => "ins [a,b,a]",
        Op::DelA => "del a",
        Op::DelB => "del b",
        Op::DelAB => "del [a,b]",
        Op::Save => "save",
        Op::Compact => "compact",
        Op::Restart => "restart",
        Op::InsA2 => "ins s:a",
        Op::DelA2 => "del s:a",
    }
}
pub fn is_maint(o: Op) -> bool {
    matches!(o, Op::Save | Op::Compact)
}

fn ta() -> Tuple {
    Tuple::new(vec![Value::Int64(1), Value::Int64(2)])
}
fn tb() -> Tuple {
    Tuple::new(vec![Value::Int64(3), Value::Int64(4)])
}

pub struct Store {
    pub dir: std::path::PathBuf,
    pub buffer: usize,
    pub dur: DurabilityMode,
    pub max_wal: Option<u64>,
    pub eng: Option<StorageEngine>,
}

impl Store {
    pub fn open(dir: &Path, buffer: usize, dur: DurabilityMode, max_wal: Option<u64>) -> Result<Store, String> {
        let eng = StorageEngine::new(mk_config(dir, buffer, dur, max_wal)).map_err(|e| format!("open: {e}"))?;
        Ok(Store {
            dir: dir.to_path_buf(),
            buffer,
            dur,
            max_wal,
            eng: Some(eng),
        })
    }
    pub fn eng(&self) -> &StorageEngine {
        self.eng.as_ref().unwrap()
    }
    /// Clean restart: documented shutdown path (save_all) where the durability mode needs it, drop, reopen.
    pub fn restart(&mut self) -> Result<(), String> {
        if self.dur != DurabilityMode::Immediate {
            self.eng().save_all().map_err(|e| format!("save_all at shutdown: {e}"))?;
        }
        self.eng = None;
        let eng = StorageEngine::new(mk_config(&self.dir, self.buffer, self.dur, self.max_wal)).map_err(|e| format!("reopen: {e}"))?;
        self.eng = Some(eng);
        Ok(())
    }
    pub fn contents(&self, rel: &str, arity: usize) -> Result<Vec<Tuple>, String> {
        let rels = self.eng().list_relations_in(KG).map_err(|e| format!("list_relations: {e}"))?;
        if !rels.iter().any(|r| r == rel) {
            return Ok(vec![]);
        }
        let vars: Vec<String> = (0..arity).map(|i| format!("V{i}")).collect();
        let prog = format!("vq({}) <- {}({})", vars.join(", "), rel, vars.join(", "));
        self.eng().execute_query_tuples_on(KG, &prog).map_err(|e| format!("query: {e}"))
    }
    pub fn apply(&mut self, o: Op) -> Result<(), String> {
        let e = |x: inputlayer::storage::StorageError| format!("{}: {x}", op_name(o));
        match o {
            Op::InsA => self.eng().insert_tuples_into(KG, "r", vec![ta()]).map(|_| ()).map_err(e),
            Op::InsB => self.eng().insert_tuples_into(KG, "r", vec![tb()]).map(|_| ()).map_err(e),
            Op::InsAB => self.eng().insert_tuples_into(KG, "r", vec![ta(), tb()]).map(|_| ()).map_err(e),
            Op::InsAA => self.eng().insert_tuples_into(KG, "r", vec![ta(), ta()]).map(|_| ()).map_err(e),
            Op::InsABA => self.eng().insert_tuples_into(KG, "r", vec![ta(), tb(), ta()]).map(|_| ()).map_err(e),
            Op::DelA => self.eng().delete_tuples_from(KG, "r", vec![ta()]).map(|_| ()).map_err(e),
            Op::DelB => self.eng().delete_tuples_from(KG, "r", vec![tb()]).map(|_| ()).map_err(e),
            Op::DelAB => self.eng().delete_tuples_from(KG, "r", vec![ta(), tb()]).map(|_| ()).map_err(e),
            Op::InsA2 => self.eng().insert_tuples_into(KG, "s", vec![ta()]).map(|_| ()).map_err(e),
            Op::DelA2 => self.eng().delete_tuples_from(KG, "s", vec![ta()]).map(|_| ()).map_err(e),
            Op::Save => self.eng().save_all().map_err(e),
            Op::Compact => self.eng().compact_all().map_err(e),
            Op::Restart => self.restart(),
        }
    }
}

/// R2 set model of relations r and s over tuples {a,b}: bit0 = a in r, bit1 = b in r, bit2 = a in s.
pub fn model_step(m: u8, o: Op) -> u8 {
    match o {
        Op::InsA | Op::InsAA => m | 1,
        Op::InsB => m | 2,
        Op::InsAB | Op::InsABA => m | 3,
        Op::DelA => m & !1,
        Op::DelB => m & !2,
        Op::DelAB => m & !3,
        Op::InsA2 => m | 4,
        Op::DelA2 => m & !4,
        _ => m,
    }
}
fn observe(s: &Store) -> Result<u8, String> {
    let r = s.contents("r", 2)?;
    let mut m = 0u8;
    let (a, b) = (ta(), tb());
    let na = r.iter().filter(|t| same_tuple(t, &a)).count();
    let nb = r.iter().filter(|t| same_tuple(t, &b)).count();
    if na + nb != r.len() || na > 1 || nb > 1 {
        return Err(format!("relation r holds unexpected rows: {:?}", r.iter().map(|t| t.to_string()).collect::<Vec<_>>()));
    }
    if na == 1 {
        m |= 1;
    }
    if nb == 1 {
        m |= 2;
    }
    let s2 = s.contents("s", 2)?;
    if s2.iter().any(|t| same_tuple(t, &a)) {
        m |= 4;
    }
    if s2.len() > 1 {
        return Err("relation s holds unexpected rows".into());
    }
    Ok(m)
}

/// All sequences over `alpha` of length exactly `len`, index → sequence (shortlex by construction when called per length).
fn seq_of(mut idx: usize, len: usize, alpha: &[Op]) -> Vec<Op> {
    let mut v = vec![alpha[0]; len];
    for i in (0..len).rev() {
        v[i] = alpha[idx % alpha.len()];
        idx /= alpha.len();
    }
    v
}

fn hist_str(h: &[Op]) -> String {
    h.iter().map(|o| op_name(*o)).collect::<Vec<_>>().join("; ")
}

/// net log sum (what summing request diffs predicts) for tuple bit `bit` of relation r/s
fn log_sum(h: &[Op], bit: u8) -> i64 {
    let mut s = 0i64;
    for o in h {
        s += match (o, bit) {
            (Op::InsA, 1) | (Op::InsAB, 1) => 1,
            (Op::InsAA, 1) | (Op::InsABA, 1) => 2,
            (Op::DelA, 1) | (Op::DelAB, 1) => -1,
            (Op::InsB, 2) | (Op::InsAB, 2) | (Op::InsABA, 2) => 1,
            (Op::DelB, 2) | (Op::DelAB, 2) => -1,
            (Op::InsA2, 4) => 1,
            (Op::DelA2, 4) => -1,
            _ => 0,
        };
    }
    s
}

#[derive(Clone, Copy, Debug, PartialEq, Eq, Serialize, Deserialize)]
pub struct StoreCfg {
    pub buffer: usize,
    pub dur: u8, // 0 immediate 1 batched 2 async
    pub max_wal: Option<u64>,
}
fn dur_of(d: u8) -> DurabilityMode {
    match d {
        0 => DurabilityMode::Immediate,
        1 => DurabilityMode::Batched,
        _ => DurabilityMode::Async,
    }
}

/// Run a history; after every step compare live state with the model; at every restart compare before/after.
/// Returns Err((class, detail)) at the first divergence.
pub fn run_history(h: &[Op], cfg: StoreCfg, l: Option<&mut Local>) -> Result<Vec<u8>, (String, String)> {
    let scratch = Scratch::new("hist");
    let r = catch_unwind(AssertUnwindSafe(|| -> Result<Vec<u8>, (String, String)> {
        let mut s = Store::open(scratch.path(), cfg.buffer, dur_of(cfg.dur), cfg.max_wal).map_err(|e| ("open_failed".to_string(), e))?;
        let mut m = 0u8;
        let mut trace = vec![];
        let mut hist_plus = h.to_vec();
        hist_plus.push(Op::Restart); // final restart
        for (i, o) in hist_plus.iter().enumerate() {
            let before = if *o == Op::Restart { Some(observe(&s).map_err(|e| ("observe_failed".to_string(), e))?) } else { None };
            s.apply(*o).map_err(|e| (if *o == Op::Restart { "restart_failed".to_string() } else { "op_failed".to_string() }, format!("step {i} {}: {e}", op_name(*o))))?;
            m = model_step(m, *o);
            let live = observe(&s).map_err(|e| ("observe_failed".to_string(), e))?;
            trace.push(live);
            if let Some(b) = before {
                if live != b {
                    // classify
                    let diff = live ^ b;
                    let bit = if diff & 1 != 0 { 1 } else if diff & 2 != 0 { 2 } else { 4 };
                    let mode = if live & bit != 0 { "resurrected" } else { "lost" };
                    let ls = log_sum(&h[..i.min(h.len())], bit);
                    let explained = (ls > 0) == (live & bit != 0);
                    let class = if explained { format!("log_sums_request_diffs:{mode}") } else { format!("unexplained:{mode}") };
                    return Err((class, format!("history [{}]: before restart at step {i} served {:03b}, after restart {:03b} (bits: a in r, b in r, a in s); summed log diff for the tuple = {ls}", hist_str(h), b, live)));
                }
            }
            if live != m {
                return Err(("live_state_differs_from_set_model".to_string(), format!("history [{}]: after step {i} ({}) live state {:03b} but set model {:03b}", hist_str(h), op_name(*o), live, m)));
            }
        }
        Ok(trace)
    }));
    if let Some(l) = l {
        l.eval();
    }
    match r {
        Ok(x) => x,
        Err(p) => Err(("panic".to_string(), format!("history [{}]: panic {}", hist_str(h), crate::e1::panic_msg(&p)))),
    }
}

pub fn c11(args: &Args) -> i32 {
    quiet_panics();
    if let Some(p) = &args.replay {
        let j = read_replay(p);
        let h: Vec<Op> = serde_json::from_value(j["case"]["history"].clone()).expect("history");
        let cfg: StoreCfg = serde_json::from_value(j["case"]["cfg"].clone()).unwrap_or(StoreCfg { buffer: 10000, dur: 0, max_wal: None });
        println!("history: {}", hist_str(&h));
        return match run_history(&h, cfg, None) {
            Ok(_) => {
                println!("replay: property holds on this history");
                0
            }
            Err((c, d)) => {
                println!("class={c} {d}");
                println!("VIOLATION property=C11 replay={}", p.display());
                1
            }
        };
    }
    let run = Run::new(args, "model_checking", 50.0, 1500.0);
    let alpha: Vec<Op> = if run.quick() {
        vec![Op::InsA, Op::InsB, Op::InsAB, Op::InsAA, Op::InsABA, Op::DelA, Op::DelB, Op::DelAB, Op::Save, Op::Compact, Op::Restart]
    } else {
        vec![Op::InsA, Op::InsB, Op::InsAB, Op::InsAA, Op::InsABA, Op::DelA, Op::DelB, Op::DelAB, Op::Save, Op::Compact, Op::Restart, Op::InsA2, Op::DelA2]
    };
    let max_len = if run.quick() { 4 } else { 5 };
    let cfg = StoreCfg { buffer: 10000, dur: 0, max_wal: None };
    run.set_rule("all operation sequences (shortlex) up to the depth bound over the alphabet {ins a, ins b, ins [a,b], ins [a,a], ins [a,b,a], del a, del b, del [a,b], save, compact, restart} (+second relation in thorough), each executed from a fresh real StorageEngine on tmpfs, plus a final restart; after every step the served relation contents are compared with the set model, at every restart with the contents served just before. non-trivial = histories containing at least one write; states = distinct (model state, position) pairs reached");
    run.assume("immediate durability, clean shutdown; tmpfs behaves like a file system for non-crash runs");
    let mut total_states: BTreeSet<(u8, usize)> = BTreeSet::new();
    let mut completed_depth = 0;
    let mut transitions = 0u64;
    let mut traces = 0u64;
    for len in 1..=max_len {
        let n = alpha.len().pow(len as u32);
        let states = std::sync::Mutex::new(BTreeSet::new());
        let done = run.par_for(n, threads(), |idx, l| {
            let h = seq_of(idx, len, &alpha);
            let r = run_history(&h, cfg, Some(l));
            if h.iter().any(|o| !is_maint(*o) && *o != Op::Restart) {
                l.nontrivial(fnv(format!("{h:?}").as_bytes()));
            }
            match r {
                Ok(trace) => {
                    let mut st = states.lock().unwrap();
                    for (i, s) in trace.iter().enumerate() {
                        st.insert((*s, i));
                    }
                    l.outcome(*trace.last().unwrap() as u64);
                    if run.want_sample() && len == max_len && idx % 977 == 0 {
                        run.sample(json!({"history": hist_str(&h), "served_state_after_each_step": trace}));
                    }
                }
                Err((class, detail)) => {
                    run.violation(&class, json!({"history": h, "history_text": hist_str(&h), "cfg": cfg}), detail);
                }
            }
        });
        transitions += (done * (len + 1)) as u64;
        traces += done as u64;
        total_states.extend(states.into_inner().unwrap());
        if done == n {
            completed_depth = len;
        } else {
            break;
        }
    }
    run.put("states", json!(total_states.len()));
    run.put("transitions", json!(transitions));
    run.put("traces_validated_against_impl", json!(traces));
    run.put("max_depth_completed", json!(completed_depth));
    run.put("depth_bound", json!(max_len));
    run.put("alphabet", json!(alpha.iter().map(|o| op_name(*o)).collect::<Vec<_>>()));
    run.finish()
}

// ---------------------------------------------------------------------------
// C14: maintenance operations are invisible (differential against the maintenance-free twin)

pub fn c14(args: &Args) -> i32 {
    quiet_panics();
    let run = Run::new(args, "model_checking", 50.0, 1500.0);
    let alpha: Vec<Op> = vec![Op::InsA, Op::InsB, Op::InsAA, Op::DelA, Op::DelAB, Op::Save, Op::Compact, Op::Restart];
    let max_len = if run.quick() { 3 } else { 5 };
    let mut cfgs: Vec<StoreCfg> = vec![];
    for buffer in [1usize, 2, 3, 10000] {
        for max_wal in [Some(0u64), Some(200), None] {
            for dur in [0u8, 1, 2] {
                cfgs.push(StoreCfg { buffer, dur, max_wal });
            }
        }
    }
    if let Some(p) = &args.replay {
        let j = read_replay(p);
        let h: Vec<Op> = serde_json::from_value(j["case"]["history"].clone()).expect("history");
        let cfg: StoreCfg = serde_json::from_value(j["case"]["cfg"].clone()).expect("cfg");
        println!("history: {} cfg={cfg:?}", hist_str(&h));
        let bad = c14_one(&h, cfg).is_some();
        if bad {
            println!("VIOLATION property=C14 replay={}", p.display());
        }
        return bad as i32;
    }
    run.set_rule("all operation sequences up to the depth bound over {ins a, ins b, ins [a,a], del a, del [a,b], save, compact, restart} x buffer_size {1,2,3,10000} x max_wal_size {0,200,default} x durability {immediate,batched,async} (clean shutdown), each compared at every step and after a final restart with its maintenance-free twin (same history with save/compact removed, buffer 10000, default WAL size, immediate durability). non-trivial = histories with >=1 write and (>=1 maintenance op or a non-default configuration)");
    run.put("configurations", json!(cfgs.len()));
    let mut completed_depth = 0;
    let mut traces = 0u64;
    let mut transitions = 0u64;
    let states = std::sync::Mutex::new(BTreeSet::new());
    for len in 1..=max_len {
        let n = alpha.len().pow(len as u32);
        let total = n * cfgs.len();
        let done = run.par_for(total, threads(), |idx, l| {
            let h = seq_of(idx / cfgs.len(), len, &alpha);
            let cfg = cfgs[idx % cfgs.len()];
            l.eval();
            if h.iter().any(|o| !is_maint(*o) && *o != Op::Restart) {
                l.nontrivial(fnv(format!("{h:?}{cfg:?}").as_bytes()));
            }
            match c14_one(&h, cfg) {
                None => {
                    let mut m = 0u8;
                    for o in &h {
                        m = model_step(m, *o);
                    }
                    l.outcome(m as u64);
                    states.lock().unwrap().insert((m, len));
                    if run.want_sample() && idx % 1013 == 0 {
                        run.sample(json!({"history": hist_str(&h), "cfg": cfg}));
                    }
                }
                Some((class, detail)) => run.violation(&class, json!({"history": h, "history_text": hist_str(&h), "cfg": cfg}), detail),
            }
        });
        traces += done as u64;
        transitions += (done * (len + 1)) as u64;
        if done == total {
            completed_depth = len;
        } else {
            break;
        }
    }
    run.put("states", json!(states.lock().unwrap().len()));
    run.put("transitions", json!(transitions));
    run.put("traces_validated_against_impl", json!(traces));
    run.put("max_depth_completed", json!(completed_depth));
    run.put("depth_bound", json!(max_len));
    run.finish()
}

/// Run history under cfg and its maintenance-free twin under the plain configuration in lock-step.
fn c14_one(h: &[Op], cfg: StoreCfg) -> Option<(String, String)> {
    let plain = StoreCfg { buffer: 10000, dur: 0, max_wal: None };
    let sa = Scratch::new("c14a");
    let sb = Scratch::new("c14b");
    let r = catch_unwind(AssertUnwindSafe(|| -> Option<(String, String)> {
        let mut a = match Store::open(sa.path(), cfg.buffer, dur_of(cfg.dur), cfg.max_wal) {
            Ok(s) => s,
            Err(e) => return Some(("open_failed".into(), e)),
        };
        let mut b = Store::open(sb.path(), plain.buffer, dur_of(plain.dur), plain.max_wal).expect("plain store opens");
        let mut hp = h.to_vec();
        hp.push(Op::Restart);
        for (i, o) in hp.iter().enumerate() {
            if let Err(e) = a.apply(*o) {
                return Some((format!("op_failed:{}", if is_maint(*o) { "maintenance" } else if *o == Op::Restart { "restart" } else { "write" }), format!("history [{}] cfg {cfg:?}: step {i} {} failed: {e}", hist_str(h), op_name(*o))));
            }
            if !is_maint(*o) {
                if let Err(e) = b.apply(*o) {
                    return Some(("twin_failed_not_attributable".into(), e));
                }
            }
            let (oa, ob) = (observe(&a), observe(&b));
            match (oa, ob) {
                (Ok(x), Ok(y)) if x == y => {}
                (Ok(x), Ok(y)) => {
                    let what = if hp[..=i].iter().any(|o| is_maint(*o)) { "with_maintenance_ops" } else { "config_only" };
                    let cfgtag = format!("buf{}_{}_wal{}", if cfg.buffer >= 10000 { "big".to_string() } else { "small".to_string() }, ["imm", "batched", "async"][cfg.dur as usize], match cfg.max_wal { Some(0) => "0", Some(_) => "small", None => "default" });
                    return Some((format!("differs_from_twin:{what}:{cfgtag}"), format!("history [{}] cfg {cfg:?}: after step {i} ({}) serves {:03b} but maintenance-free twin serves {:03b}", hist_str(h), op_name(*o), x, y)));
                }
                (Err(e), _) => return Some(("observe_failed".into(), format!("history [{}] cfg {cfg:?}: {e}", hist_str(h)))),
                (_, Err(_)) => return None, // twin's own problem is C11/C32's business
            }
        }
        None
    }));
    match r {
        Ok(x) => x,
        Err(p) => Some(("panic".into(), format!("history [{}] cfg {cfg:?}: panic {}", hist_str(h), crate::e1::panic_msg(&p)))),
    }
}

// ---------------------------------------------------------------------------
// C12: every stored value survives restart unchanged

pub fn c12_pool() -> Vec<Value> {
    vec![
        Value::Int32(1),
        Value::Int64(1),
        Value::Int64(i64::MIN),
        Value::Int64(i64::MAX),
        Value::Float64(1.5),
        Value::Float64(-0.0),
        Value::Float64(0.0),
        Value::Float64(f64::NAN),
        Value::Float64(f64::INFINITY),
        Value::string(""),
        Value::string("a"),
        Value::string("é"),
        Value::string(&"x".repeat(10_000)),
        Value::Bool(true),
        Value::Bool(false),
        Value::Null,
        Value::Timestamp(1_700_000_000_000),
        Value::vector(vec![]),
        Value::vector(vec![1.0]),
        Value::vector(vec![1.0, 2.0]),
        Value::vector(vec![f32::NAN]),
        Value::vector_int8(vec![]),
        Value::vector_int8(vec![-128, 127]),
    ]
}

fn show_t(t: &Tuple) -> String {
    let s = format!("{t:?}");
    truncate(&s, 120)
}

/// rows: tuples inserted one request each, flush pattern bit i = save after insert i. Returns None if ok.
fn c12_one(rows: &[Tuple], flush_mask: u8, batch: bool) -> Option<(String, String)> {
    let sc = Scratch::new("c12");
    let r = catch_unwind(AssertUnwindSafe(|| -> Option<(String, String)> {
        let mut s = Store::open(sc.path(), 10000, DurabilityMode::Immediate, None).ok()?;
        let mut accepted: Vec<Tuple> = vec![];
        if batch {
            if s.eng().insert_tuples_into(KG, "v", rows.to_vec()).is_ok() {
                for t in rows {
                    if !accepted.iter().any(|a| same_tuple(a, t)) {
                        accepted.push(t.clone());
                    }
                }
            }
            if flush_mask & 1 != 0 {
                let _ = s.eng().save_all();
            }
        } else {
            for (i, t) in rows.iter().enumerate() {
                if s.eng().insert_tuples_into(KG, "v", vec![t.clone()]).is_ok() && !accepted.iter().any(|a| same_tuple(a, t)) {
                    accepted.push(t.clone());
                }
                if flush_mask & (1 << i) != 0 {
                    if let Err(e) = s.eng().save_all() {
                        return Some((format!("flush_failed:{}", row_sig(rows, flush_mask)), format!("save_all failed after accepted inserts {:?}: {e}", rows.iter().map(show_t).collect::<Vec<_>>())));
                    }
                }
            }
        }
        if accepted.is_empty() {
            return None; // nothing accepted for storage: not a case
        }
        let arity = rows[0].arity();
        let live = match s.contents("v", arity) {
            Ok(l) => l,
            Err(e) => return Some((format!("live_query_failed:{}", row_kinds(rows)), e)),
        };
        if let Err(e) = s.restart() {
            return Some((format!("reopen_failed:{}", row_sig(rows, flush_mask)), format!("rows {:?} flush_mask {flush_mask:b}: {e}", rows.iter().map(show_t).collect::<Vec<_>>())));
        }
        let after = match s.contents("v", arity) {
            Ok(l) => l,
            Err(e) => return Some((format!("query_after_restart_failed:{}", row_kinds(rows)), e)),
        };
        // accepted tuples must all be present after restart, identical incl. variant; nothing else may appear
        let missing: Vec<&Tuple> = accepted.iter().filter(|t| !after.iter().any(|a| same_tuple(a, t))).collect();
        let foreign: Vec<&Tuple> = after.iter().filter(|a| !accepted.iter().any(|t| same_tuple(a, t))).collect();
        if !missing.is_empty() || !foreign.is_empty() || after.len() != accepted.len() {
            let _ = live;
            return Some((
                format!("value_changed_or_lost:{}", row_sig(rows, flush_mask)),
                format!("accepted {:?} flush_mask {flush_mask:b} batch={batch}; after restart: {:?}", accepted.iter().map(show_t).collect::<Vec<_>>(), after.iter().map(show_t).collect::<Vec<_>>()),
            ));
        }
        None
    }));
    match r {
        Ok(x) => x,
        Err(p) => Some((format!("panic:{}", row_kinds(rows)), format!("rows {:?}: panic {}", rows.iter().map(show_t).collect::<Vec<_>>(), crate::e1::panic_msg(&p)))),
    }
}

/// Failure signature: a column holding several kinds is one root-cause family (schema inferred from the
/// first row); homogeneous columns are classified per kind. Whether a flush happened is part of the signature.
fn row_sig(rows: &[Tuple], flush_mask: u8) -> String {
    let k = row_kinds(rows);
    let flushed = if flush_mask != 0 { "flushed" } else { "wal_only" };
    if k.contains('|') {
        format!("mixed_kinds_in_column:{flushed}")
    } else {
        format!("{k}:{flushed}")
    }
}

/// Stable identity of one failing input: failure mode (first path component of the class) + exact rows + flush
/// pattern + batch flag. The known-findings protocol lists the failing INPUTS of the unchanged tree in
/// known_inputs/C12.txt (one hash per line); a failing input that is not listed is reported under its own class.
fn input_hash(class: &str, rows: &[Tuple], flush_mask: u8, batch: bool) -> u64 {
    let mode = class.split(':').next().unwrap_or("");
    fnv(format!("{mode}|{rows:?}|{flush_mask}|{batch}").as_bytes())
}

fn load_known_inputs() -> std::collections::HashSet<u64> {
    let p = verif_root().join("known_inputs").join("C12.txt");
    std::fs::read_to_string(p).unwrap_or_default().lines().filter_map(|l| u64::from_str_radix(l.trim(), 16).ok()).collect()
}

fn row_kinds(rows: &[Tuple]) -> String {
    // column-wise kind signature: homogeneous columns vs mixed
    let ar = rows[0].arity();
    let mut cols = vec![];
    for c in 0..ar {
        let mut ks: Vec<&str> = rows.iter().filter_map(|r| r.get(c)).map(kind).collect();
        ks.sort();
        ks.dedup();
        cols.push(ks.join("|"));
    }
    cols.join(",")
}

pub fn c12(args: &Args) -> i32 {
    quiet_panics();
    let run = Run::new(args, "model_checking", 50.0, 900.0);
    let pool = c12_pool();
    run.set_rule("value pool of every kind (both int widths, floats incl -0.0/NaN/inf, strings incl empty/10kB/non-ASCII, bool, null, timestamp, float and int8 vectors of several dimensions): all ordered pairs (v1,v2) inserted as two arity-1 rows of one schema-less relation x 4 flush patterns, all pairs as one batch, every single value, and (thorough) all column-wise mixes in arity 2; after a clean restart the relation must hold exactly the accepted tuples, identical including Value variant (bitwise for floats). non-trivial = cases with at least one accepted tuple, distinct by (rows, flush pattern)");
    run.put("value_pool_size", json!(pool.len()));
    if let Some(p) = &args.replay {
        let j = read_replay(p);
        let rows: Vec<Tuple> = serde_json::from_value(j["case"]["rows"].clone()).expect("rows");
        let mask = j["case"]["flush_mask"].as_u64().unwrap_or(0) as u8;
        let batch = j["case"]["batch"].as_bool().unwrap_or(false);
        let r = c12_one(&rows, mask, batch);
        if let Some((c, d)) = &r {
            println!("class={c} {d}");
            println!("VIOLATION property=C12 replay={}", p.display());
        }
        return r.is_some() as i32;
    }
    // build case list
    let mut cases: Vec<(Vec<Tuple>, u8, bool)> = vec![];
    for v in &pool {
        for mask in 0..2u8 {
            cases.push((vec![Tuple::new(vec![v.clone()])], mask, false));
        }
    }
    for a in &pool {
        for b in &pool {
            for mask in 0..4u8 {
                cases.push((vec![Tuple::new(vec![a.clone()]), Tuple::new(vec![b.clone()])], mask, false));
            }
            cases.push((vec![Tuple::new(vec![a.clone()]), Tuple::new(vec![b.clone()])], 1, true));
        }
    }
    if !run.quick() {
        let sub: Vec<Value> = vec![Value::Int32(1), Value::Int64(1), Value::Float64(1.5), Value::string("a"), Value::Bool(true), Value::Null, Value::Timestamp(5), Value::vector(vec![1.0]), Value::vector_int8(vec![1])];
        for a in &sub {
            for b in &sub {
                for c in &sub {
                    for d in &sub {
                        for mask in [0u8, 1, 3] {
                            cases.push((vec![Tuple::new(vec![a.clone(), b.clone()]), Tuple::new(vec![c.clone(), d.clone()])], mask, false));
                        }
                    }
                }
            }
        }
    }
    run.put("cases", json!(cases.len()));
    let known_inputs = load_known_inputs();
    run.put("listed_known_failing_inputs", json!(known_inputs.len()));
    // maintenance aid (never set by the registered commands): dump the hashes of all failing inputs of this run
    let dump = std::env::var("VERIF_C12_DUMP_INPUTS").ok().map(|p| std::sync::Mutex::new(std::fs::File::create(p).expect("dump file")));
    let done = run.par_for(cases.len(), threads(), |i, l| {
        let (rows, mask, batch) = &cases[i];
        l.eval();
        l.nontrivial(i as u64);
        match c12_one(rows, *mask, *batch) {
            None => {
                l.outcome(fnv(row_kinds(rows).as_bytes()));
                if run.want_sample() && i % 401 == 0 {
                    run.sample(json!({"rows": rows.iter().map(show_t).collect::<Vec<_>>(), "flush_mask": mask, "batch": batch}));
                }
            }
            Some((class, detail)) => {
                let hsh = input_hash(&class, rows, *mask, *batch);
                if let Some(f) = &dump {
                    use std::io::Write;
                    let _ = writeln!(f.lock().unwrap(), "{hsh:016x}");
                }
                if known_inputs.contains(&hsh) {
                    // one of the enumerated failing inputs of the unchanged tree: reported under the coarse listed class
                    run.violation(&format!("listed_input:{class}"), json!({"rows": rows, "flush_mask": mask, "batch": batch}), detail);
                } else {
                    let ordered: Vec<String> = rows.iter().map(|r| r.values().iter().map(kind).collect::<Vec<_>>().join(",")).collect();
                    run.violation(&format!("{class}[{}]", ordered.join(">")), json!({"rows": rows, "flush_mask": mask, "batch": batch}), detail);
                }
            }
        }
    });
    run.put("states", json!(done));
    run.put("transitions", json!(done * 4));
    run.put("traces_validated_against_impl", json!(done));
    run.finish()
}
