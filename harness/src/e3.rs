//! E3 CRASH — placeholder until the crash explorer lands (see below).
use crate::common::*;
use serde_json::Value as J;

pub fn c16_crash_leg(_args: &Args, run: &Run) {
    run.put("crash_leg", serde_json::json!("not built yet"));
}
pub fn c16_replay(_args: &Args, _j: &J) -> i32 {
    2
}
