//! E3 CRASH — every file-system mutation boundary of a recorded history x every admissible loss of
//! unsynced state (DESIGN §1.4 E3), recovered by the real `StorageEngine::new`.
//!
//! The recorder is the LD_PRELOAD shim (shim/fsshim.c): the workload runs in this process on a scratch
//! directory whose name contains "rec"; the shim appends every successful mutation to `<scratch>.fslog`.

use crate::common::*;
use crate::e2_store::mk_config;
use inputlayer::{DurabilityMode, StorageEngine, Tuple, Value};
use serde_json::{json, Value as J};
use std::collections::{BTreeMap, BTreeSet};
use std::panic::{catch_unwind, AssertUnwindSafe};
use std::path::{Path, PathBuf};

// ---------------------------------------------------------------------------------------- log

#[derive(Clone, Debug)]
pub enum Rec {
    Create(String),
    Trunc(String),
    Write { path: String, off: usize, data: Vec<u8> },
    Ftrunc { path: String, len: usize },
    SyncFile(String),
    SyncDir(String),
    Rename(String, String),
    Unlink(String),
    Mkdir(String),
    Rmdir(String),
    Mark(String),
}

fn unhex(s: &str) -> Vec<u8> {
    let b = s.as_bytes();
    let v = |c: u8| if c <= b'9' { c - b'0' } else { c - b'a' + 10 };
    (0..b.len() / 2).map(|i| v(b[2 * i]) * 16 + v(b[2 * i + 1])).collect()
}

pub fn parse_log(text: &str) -> Result<Vec<Rec>, String> {
    let mut out = vec![];
    for line in text.lines() {
        let mut it = line.splitn(2, ' ');
        let tag = it.next().unwrap_or("");
        let rest = it.next().unwrap_or("");
        let r = match tag {
            "C" => Rec::Create(rest.to_string()),
            "T" => Rec::Trunc(rest.to_string()),
            "W" => {
                let p: Vec<&str> = rest.splitn(4, ' ').collect();
                if p.len() != 4 {
                    return Err(format!("bad W record: {}", truncate(line, 80)));
                }
                let data = unhex(p[3]);
                if data.len() != p[2].parse::<usize>().map_err(|e| e.to_string())? {
                    return Err("W record length mismatch".into());
                }
                Rec::Write { path: p[0].to_string(), off: p[1].parse().map_err(|_| "bad offset")?, data }
            }
            "U" => {
                let p: Vec<&str> = rest.splitn(2, ' ').collect();
                Rec::Ftrunc { path: p[0].to_string(), len: p.get(1).and_then(|x| x.parse().ok()).ok_or("bad U")? }
            }
            "S" => Rec::SyncFile(rest.to_string()),
            "D" => Rec::SyncDir(rest.to_string()),
            "R" => {
                let p: Vec<&str> = rest.splitn(2, ' ').collect();
                if p.len() != 2 {
                    return Err("bad R".into());
                }
                Rec::Rename(p[0].to_string(), p[1].to_string())
            }
            "X" => Rec::Unlink(rest.to_string()),
            "M" => Rec::Mkdir(rest.to_string()),
            "Y" => Rec::Rmdir(rest.to_string()),
            "K" => Rec::Mark(rest.to_string()),
            _ => return Err(format!("unknown record {}", truncate(line, 60))),
        };
        out.push(r);
    }
    Ok(out)
}

type MarkFn = unsafe extern "C" fn(*const libc::c_char, *const libc::c_char);
pub fn fs_mark(scratch: &Path, text: &str) -> bool {
    let name = std::ffi::CString::new("verif_fs_mark").unwrap();
    let p = unsafe { libc::dlsym(libc::RTLD_DEFAULT, name.as_ptr()) };
    if p.is_null() {
        return false;
    }
    let f: MarkFn = unsafe { std::mem::transmute(p) };
    let a = std::ffi::CString::new(scratch.to_str().unwrap()).unwrap();
    let b = std::ffi::CString::new(text).unwrap();
    unsafe { f(a.as_ptr(), b.as_ptr()) };
    true
}
pub fn recorder_active() -> bool {
    std::env::var("VERIF_FS_ROOT").map(|r| r == "/dev/shm/verif-").unwrap_or(false) && crate::entropy::shim_loaded()
}
pub fn log_path(scratch: &Path) -> PathBuf {
    PathBuf::from(format!("{}.fslog", scratch.display()))
}

// ---------------------------------------------------------------------------------------- labelling

/// Per-record facts derived from the true execution: inode identities and durability at crash point.
struct Labelled {
    /// inode id of the file a data / sync / create op refers to (None for dir ops and marks)
    inode: Vec<Option<usize>>,
}

fn is_dir_op(r: &Rec) -> bool {
    matches!(r, Rec::Create(_) | Rec::Rename(..) | Rec::Unlink(_) | Rec::Mkdir(_) | Rec::Rmdir(_))
}
fn is_data_op(r: &Rec) -> bool {
    matches!(r, Rec::Trunc(_) | Rec::Write { .. } | Rec::Ftrunc { .. })
}
fn is_sync(r: &Rec) -> bool {
    matches!(r, Rec::SyncFile(_) | Rec::SyncDir(_))
}

fn label(recs: &[Rec]) -> Labelled {
    let mut path2ino: BTreeMap<String, usize> = BTreeMap::new();
    let mut next = 0usize;
    let mut inode = vec![None; recs.len()];
    for (i, r) in recs.iter().enumerate() {
        match r {
            Rec::Create(p) => {
                path2ino.insert(p.clone(), next);
                inode[i] = Some(next);
                next += 1;
            }
            Rec::Trunc(p) | Rec::Ftrunc { path: p, .. } | Rec::Write { path: p, .. } | Rec::SyncFile(p) => {
                let n = *path2ino.entry(p.clone()).or_insert_with(|| {
                    next += 1;
                    next - 1
                });
                inode[i] = Some(n);
            }
            Rec::Rename(a, b) => {
                // file rename, or directory rename (move every path below it)
                if let Some(n) = path2ino.remove(a) {
                    path2ino.insert(b.clone(), n);
                } else {
                    let pre = format!("{a}/");
                    let moved: Vec<(String, usize)> = path2ino.iter().filter(|(k, _)| k.starts_with(&pre)).map(|(k, v)| (k.clone(), *v)).collect();
                    for (k, v) in moved {
                        path2ino.remove(&k);
                        path2ino.insert(format!("{b}/{}", &k[pre.len()..]), v);
                    }
                }
            }
            Rec::Unlink(p) => {
                path2ino.remove(p);
            }
            _ => {}
        }
    }
    Labelled { inode }
}

// ---------------------------------------------------------------------------------------- images

#[derive(Clone, Debug, PartialEq, Eq, PartialOrd, Ord)]
pub struct Image {
    pub files: BTreeMap<String, Vec<u8>>,
    pub dirs: BTreeSet<String>,
}

#[derive(Clone, Debug)]
pub struct Choice {
    /// how many of the volatile directory operations survive (a prefix)
    pub dir_keep: usize,
    /// per inode with volatile data: 0 = all lost, 1 = all kept, 2 = all kept but the last write cut in half
    pub data: BTreeMap<usize, u8>,
    /// bytes of the in-flight write (record `crash`) that reached the file, if that record is a write
    pub partial: Option<usize>,
}

pub struct CrashPoint {
    pub crash: usize,
    pub volatile_dir: Vec<usize>,
    pub volatile_data: BTreeMap<usize, Vec<usize>>,
}

fn crash_point(recs: &[Rec], lab: &Labelled, crash: usize) -> CrashPoint {
    // last sync of anything before the crash point
    let last_any_sync = (0..crash).rev().find(|j| is_sync(&recs[*j]));
    let mut volatile_dir = vec![];
    for j in 0..crash {
        if is_dir_op(&recs[j]) && last_any_sync.map_or(true, |s| j > s) {
            volatile_dir.push(j);
        }
    }
    // per inode: data ops after that inode's last file sync
    let mut last_sync_of: BTreeMap<usize, usize> = BTreeMap::new();
    for j in 0..crash {
        if let (Rec::SyncFile(_), Some(n)) = (&recs[j], lab.inode[j]) {
            last_sync_of.insert(n, j);
        }
    }
    let mut volatile_data: BTreeMap<usize, Vec<usize>> = BTreeMap::new();
    for j in 0..crash {
        if is_data_op(&recs[j]) {
            if let Some(n) = lab.inode[j] {
                if last_sync_of.get(&n).map_or(true, |s| j > *s) {
                    volatile_data.entry(n).or_default().push(j);
                }
            }
        }
    }
    CrashPoint { crash, volatile_dir, volatile_data }
}

fn choices(recs: &[Rec], cp: &CrashPoint, lab: &Labelled, cap: usize) -> (Vec<Choice>, bool) {
    let mut out: Vec<Choice> = vec![];
    let inodes: Vec<usize> = cp.volatile_data.keys().copied().collect();
    // the in-flight record (index = crash) may be a partially completed write
    let mut partials: Vec<Option<usize>> = vec![None];
    if let Some(Rec::Write { data, .. }) = recs.get(cp.crash) {
        let n = data.len();
        let mut cuts: BTreeSet<usize> = [1usize, n / 2, n.saturating_sub(1)].into_iter().filter(|c| *c > 0 && *c < n).collect();
        if n > 0 {
            cuts.insert(n.min(1));
        }
        for c in cuts {
            if c < n {
                partials.push(Some(c));
            }
        }
    }
    let _ = lab;
    let mut capped = false;
    for dir_keep in (0..=cp.volatile_dir.len()).rev() {
        let combos = 3usize.pow(inodes.len() as u32);
        for c in 0..combos {
            let mut data = BTreeMap::new();
            let mut x = c;
            for n in &inodes {
                // order: 1 (kept) first so that the "everything survived" image comes first
                let v = [1u8, 0, 2][x % 3];
                x /= 3;
                data.insert(*n, v);
            }
            for p in &partials {
                if out.len() >= cap {
                    capped = true;
                    return (out, capped);
                }
                out.push(Choice { dir_keep, data: data.clone(), partial: *p });
            }
        }
    }
    (out, capped)
}

/// Build the image for one crash point and one choice by replaying the log on an inode-based model.
fn build_image(recs: &[Rec], lab: &Labelled, cp: &CrashPoint, ch: &Choice) -> Image {
    let dropped_dir: BTreeSet<usize> = cp.volatile_dir.iter().skip(ch.dir_keep).copied().collect();
    let mut dropped_data: BTreeSet<usize> = BTreeSet::new();
    let mut cut_write: BTreeSet<usize> = BTreeSet::new();
    for (n, ops) in &cp.volatile_data {
        match ch.data.get(n).copied().unwrap_or(1) {
            0 => dropped_data.extend(ops.iter().copied()),
            2 => {
                if let Some(last) = ops.iter().rev().find(|j| matches!(recs[**j], Rec::Write { .. })) {
                    cut_write.insert(*last);
                }
            }
            _ => {}
        }
    }
    let mut path2ino: BTreeMap<String, usize> = BTreeMap::new();
    let mut content: BTreeMap<usize, Vec<u8>> = BTreeMap::new();
    let mut dirs: BTreeSet<String> = BTreeSet::new();
    let end = if ch.partial.is_some() { cp.crash + 1 } else { cp.crash };
    for j in 0..end {
        let in_flight = j == cp.crash;
        if dropped_dir.contains(&j) || dropped_data.contains(&j) {
            continue;
        }
        match &recs[j] {
            Rec::Create(p) => {
                let n = lab.inode[j].unwrap();
                path2ino.insert(p.clone(), n);
                content.entry(n).or_default();
            }
            Rec::Trunc(_) => {
                if let Some(c) = lab.inode[j].and_then(|n| content.get_mut(&n)) {
                    c.clear();
                }
            }
            Rec::Ftrunc { len, .. } => {
                if let Some(c) = lab.inode[j].and_then(|n| content.get_mut(&n)) {
                    c.resize(*len, 0);
                }
            }
            Rec::Write { off, data, .. } => {
                if let Some(c) = lab.inode[j].and_then(|n| content.get_mut(&n)) {
                    let take = if in_flight {
                        ch.partial.unwrap_or(0)
                    } else if cut_write.contains(&j) {
                        data.len() / 2
                    } else {
                        data.len()
                    };
                    if take > 0 {
                        if c.len() < off + take {
                            c.resize(off + take, 0);
                        }
                        c[*off..off + take].copy_from_slice(&data[..take]);
                    }
                }
            }
            Rec::Rename(a, b) => {
                if let Some(n) = path2ino.remove(a) {
                    path2ino.insert(b.clone(), n);
                } else if dirs.contains(a) {
                    let pre = format!("{a}/");
                    let moved: Vec<(String, usize)> = path2ino.iter().filter(|(k, _)| k.starts_with(&pre)).map(|(k, v)| (k.clone(), *v)).collect();
                    for (k, v) in moved {
                        path2ino.remove(&k);
                        path2ino.insert(format!("{b}/{}", &k[pre.len()..]), v);
                    }
                    let sub: Vec<String> = dirs.iter().filter(|d| **d == *a || d.starts_with(&pre)).cloned().collect();
                    for d in sub {
                        dirs.remove(&d);
                        dirs.insert(format!("{b}{}", &d[a.len()..]));
                    }
                }
            }
            Rec::Unlink(p) => {
                path2ino.remove(p);
            }
            Rec::Mkdir(p) => {
                dirs.insert(p.clone());
            }
            Rec::Rmdir(p) => {
                dirs.remove(p);
            }
            Rec::SyncFile(_) | Rec::SyncDir(_) | Rec::Mark(_) => {}
        }
    }
    let files = path2ino.into_iter().filter_map(|(p, n)| content.get(&n).map(|c| (p, c.clone()))).collect();
    Image { files, dirs }
}

/// Write an image below `new_root`, relocating the recorded root (absolute batch paths inside *.json).
pub fn materialize(img: &Image, old_root: &str, new_root: &Path) -> std::io::Result<()> {
    let new_s = new_root.to_str().unwrap();
    std::fs::create_dir_all(new_root)?;
    for d in &img.dirs {
        if let Some(rel) = d.strip_prefix(old_root) {
            std::fs::create_dir_all(format!("{new_s}{rel}"))?;
        }
    }
    for (p, c) in &img.files {
        let Some(rel) = p.strip_prefix(old_root) else { continue };
        let np = format!("{new_s}{rel}");
        if let Some(parent) = Path::new(&np).parent() {
            std::fs::create_dir_all(parent)?;
        }
        if p.ends_with(".json") || p.ends_with(".json.tmp") {
            let text = String::from_utf8_lossy(c).replace(old_root, new_s);
            std::fs::write(&np, text.as_bytes())?;
        } else {
            std::fs::write(&np, c)?;
        }
    }
    Ok(())
}

// ---------------------------------------------------------------------------------------- workloads (C13)

#[derive(Clone, Copy, Debug, PartialEq, Eq, Hash, PartialOrd, Ord, serde::Serialize, serde::Deserialize)]
pub enum W13 {
    InsA,
    InsB,
    DelA,
    InsAB,
    Save,
    Compact,
    DropRel,
    CreateK,
    InsKA,
    DropK,
    /// insert tuple a into a second relation `rb` of the default KG (model: 'c')
    InsC,
    /// clear every relation of the default KG whose name starts with "r" (r and rb)
    ClearPfx,
}
pub const W13_ALL: [W13; 12] = [W13::InsA, W13::InsB, W13::DelA, W13::InsAB, W13::Save, W13::Compact, W13::DropRel, W13::CreateK, W13::InsKA, W13::DropK, W13::InsC, W13::ClearPfx];
/// start states: operations run (and acknowledged) before the explored history; crash points lie in the history only
pub const W13_PRELUDES: [&[W13]; 3] = [&[], &[W13::InsA, W13::InsC], &[W13::InsA, W13::InsC, W13::Save]];
/// the operations explored from the non-empty start states
pub const W13_AFTER_PRELUDE: [W13; 7] = [W13::ClearPfx, W13::Save, W13::Compact, W13::DelA, W13::InsB, W13::DropRel, W13::InsC];

pub fn w13_name(o: W13) -> &'static str {
    match o {
        W13::InsA => "ins a",
        W13::InsB => "ins b",
        W13::DelA => "del a",
        W13::InsAB => "ins [a,b]",
        W13::Save => "save_all",
        W13::Compact => "compact_all",
        W13::DropRel => "drop relation r",
        W13::CreateK => "create kg k",
        W13::InsKA => "k: ins a",
        W13::DropK => "drop kg k",
        W13::InsC => "rb: ins a",
        W13::ClearPfx => "clear prefix r",
    }
}
fn ta() -> Tuple {
    Tuple::new(vec![Value::Int64(1), Value::Int64(2)])
}
fn tb() -> Tuple {
    Tuple::new(vec![Value::Int64(3), Value::Int64(4)])
}
const DKG: &str = "default";

/// model: kg -> set of tuples of relation r ("a"/"b"); a KG that exists with no tuples maps to the empty set
pub type M13 = BTreeMap<String, BTreeSet<char>>;

fn m13_apply(m: &M13, o: W13) -> M13 {
    let mut m = m.clone();
    match o {
        W13::InsA => {
            m.entry(DKG.into()).or_default().insert('a');
        }
        W13::InsB => {
            m.entry(DKG.into()).or_default().insert('b');
        }
        W13::InsAB => {
            let e = m.entry(DKG.into()).or_default();
            e.insert('a');
            e.insert('b');
        }
        W13::DelA => {
            m.entry(DKG.into()).or_default().remove(&'a');
        }
        W13::DropRel => {
            let e = m.entry(DKG.into()).or_default();
            e.remove(&'a');
            e.remove(&'b');
        }
        W13::InsC => {
            m.entry(DKG.into()).or_default().insert('c');
        }
        W13::ClearPfx => {
            m.entry(DKG.into()).or_default().clear();
        }
        W13::CreateK => {
            m.entry("k".into()).or_default();
        }
        W13::InsKA => {
            if let Some(k) = m.get_mut("k") {
                k.insert('a');
            }
        }
        W13::DropK => {
            m.remove("k");
        }
        W13::Save | W13::Compact => {}
    }
    m
}

fn w13_exec(s: &StorageEngine, o: W13) -> Result<(), String> {
    let e = |x: inputlayer::storage::StorageError| x.to_string();
    match o {
        W13::InsA => s.insert_tuples_into(DKG, "r", vec![ta()]).map(|_| ()).map_err(e),
        W13::InsB => s.insert_tuples_into(DKG, "r", vec![tb()]).map(|_| ()).map_err(e),
        W13::InsAB => s.insert_tuples_into(DKG, "r", vec![ta(), tb()]).map(|_| ()).map_err(e),
        W13::DelA => s.delete_tuples_from(DKG, "r", vec![ta()]).map(|_| ()).map_err(e),
        W13::Save => s.save_all().map_err(e),
        W13::Compact => s.compact_all().map_err(e),
        W13::DropRel => s.drop_relation_in(DKG, "r").map_err(e),
        W13::CreateK => s.create_knowledge_graph("k").map_err(e),
        W13::InsKA => s.insert_tuples_into("k", "r", vec![ta()]).map(|_| ()).map_err(e),
        W13::DropK => s.drop_knowledge_graph("k").map_err(e),
        W13::InsC => s.insert_tuples_into(DKG, "rb", vec![ta()]).map(|_| ()).map_err(e),
        W13::ClearPfx => s.clear_relations_by_prefix_in(DKG, "r").map(|_| ()).map_err(e),
    }
}

fn observe13(s: &StorageEngine) -> Result<M13, String> {
    let mut m = M13::new();
    for kg in s.list_knowledge_graphs() {
        if kg != DKG && kg != "k" {
            continue;
        }
        let mut set = BTreeSet::new();
        let rels = s.list_relations_in(&kg).map_err(|e| e.to_string())?;
        if rels.iter().any(|r| r == "r") {
            let rows = s.execute_query_tuples_on(&kg, "vq(X, Y) <- r(X, Y)").map_err(|e| format!("query: {e}"))?;
            for t in rows {
                if crate::e5::same_tuple(&t, &ta()) {
                    if !set.insert('a') {
                        return Err("tuple a served twice".into());
                    }
                } else if crate::e5::same_tuple(&t, &tb()) {
                    if !set.insert('b') {
                        return Err("tuple b served twice".into());
                    }
                } else {
                    return Err(format!("foreign tuple {t}"));
                }
            }
        }
        if rels.iter().any(|r| r == "rb") {
            let rows = s.execute_query_tuples_on(&kg, "vq(X, Y) <- rb(X, Y)").map_err(|e| format!("query: {e}"))?;
            for t in rows {
                if crate::e5::same_tuple(&t, &ta()) {
                    if !set.insert('c') {
                        return Err("tuple a of rb served twice".into());
                    }
                } else {
                    return Err(format!("foreign tuple {t} in rb"));
                }
            }
        }
        m.insert(kg, set);
    }
    // the default KG always exists
    m.entry(DKG.into()).or_default();
    Ok(m)
}

fn norm13(m: &M13) -> M13 {
    let mut m = m.clone();
    m.entry(DKG.into()).or_default();
    m
}

pub struct Recording {
    pub recs: Vec<Rec>,
    pub old_root: String,
    /// for every op: (record index of its begin marker, record index of its ack marker, acked ok?)
    pub ops: Vec<(usize, usize, bool)>,
}

/// Run a C13 history under the recorder. Returns the recording (the scratch dir and its log are removed).
pub fn record13(h: &[W13], buffer: usize) -> Result<Recording, String> {
    let scratch = Scratch::new("c13rec");
    let lp = log_path(scratch.path());
    let _ = std::fs::remove_file(&lp);
    let res = (|| -> Result<(), String> {
        let s = StorageEngine::new(mk_config(scratch.path(), buffer, DurabilityMode::Immediate, None)).map_err(|e| format!("open: {e}"))?;
        for (i, o) in h.iter().enumerate() {
            fs_mark(scratch.path(), &format!("begin {i}"));
            let r = w13_exec(&s, *o);
            fs_mark(scratch.path(), &format!("ack {i} {}", if r.is_ok() { "ok" } else { "err" }));
        }
        fs_mark(scratch.path(), "end");
        drop(s);
        Ok(())
    })();
    let text = std::fs::read_to_string(&lp).unwrap_or_default();
    let _ = std::fs::remove_file(&lp);
    res?;
    let recs = parse_log(&text)?;
    let mut ops = vec![(0usize, 0usize, false); h.len()];
    for (j, r) in recs.iter().enumerate() {
        if let Rec::Mark(t) = r {
            let p: Vec<&str> = t.split(' ').collect();
            match p[0] {
                "begin" => ops[p[1].parse::<usize>().unwrap()].0 = j,
                "ack" => {
                    let k = p[1].parse::<usize>().unwrap();
                    ops[k].1 = j;
                    ops[k].2 = p[2] == "ok";
                }
                _ => {}
            }
        }
    }
    Ok(Recording { recs, old_root: scratch.path().to_str().unwrap().to_string(), ops })
}

/// Admissible model states at crash point `crash`: after every op acknowledged before it, optionally plus the
/// op in flight (ops that returned an error may or may not have taken effect).
fn admissible13(h: &[W13], rec: &Recording, crash: usize) -> Vec<M13> {
    let mut states: Vec<M13> = vec![M13::new()];
    for (i, o) in h.iter().enumerate() {
        let (b, a, ok) = rec.ops[i];
        if a < crash && a != 0 {
            // completed before the crash
            states = if ok { states.iter().map(|m| m13_apply(m, *o)).collect() } else { states.iter().flat_map(|m| vec![m.clone(), m13_apply(m, *o)]).collect() };
        } else if b < crash {
            // in flight
            states = states.iter().flat_map(|m| vec![m.clone(), m13_apply(m, *o)]).collect();
        }
    }
    let mut out: Vec<M13> = states.iter().map(norm13).collect();
    out.sort();
    out.dedup();
    out
}

pub struct Verdict {
    pub class: String,
    pub detail: String,
}

/// Recover an image, compare with the admissible states, run the probe suffix. `nested` = also record the
/// recovery and return its log for second-level exploration.
fn recover_and_check(img: &Image, old_root: &str, admissible: &[M13], buffer: usize, tag: &str, record_recovery: bool) -> (Option<Verdict>, Option<(Vec<Rec>, String)>) {
    let scratch = Scratch::new(if record_recovery { "c13nestrec" } else { "c13img" });
    let lp = log_path(scratch.path());
    if let Err(e) = materialize(img, old_root, scratch.path()) {
        return (Some(Verdict { class: "machinery:materialize".into(), detail: e.to_string() }), None);
    }
    if record_recovery {
        let _ = std::fs::remove_file(&lp); // the materialisation itself was logged: start the log at the recovery
    }
    let new_root = scratch.path().to_str().unwrap().to_string();
    // the log of the recovery proper (StorageEngine::new), taken before the probe suffix writes anything
    let recovery_log: std::sync::Mutex<Option<String>> = std::sync::Mutex::new(None);
    let r = catch_unwind(AssertUnwindSafe(|| -> Option<Verdict> {
        let opened = StorageEngine::new(mk_config(scratch.path(), buffer, DurabilityMode::Immediate, None));
        if record_recovery {
            *recovery_log.lock().unwrap() = Some(std::fs::read_to_string(&lp).unwrap_or_default());
        }
        let s = match opened {
            Ok(s) => s,
            Err(e) => return Some(Verdict { class: format!("recovery_failed:{tag}"), detail: format!("StorageEngine::new failed: {e}") }),
        };
        let got = match observe13(&s) {
            Ok(g) => g,
            Err(e) => return Some(Verdict { class: format!("recovered_state_unreadable:{tag}"), detail: e }),
        };
        if !admissible.contains(&got) {
            let lost = admissible.iter().all(|a| a.iter().any(|(k, v)| got.get(k).map_or(true, |g| !v.is_subset(g))));
            // strictly between two admissible states (same KGs, tuple sets in between): the operation in flight
            // was applied in part
            let between = admissible.iter().any(|lo| {
                admissible.iter().any(|hi| {
                    lo != hi
                        && lo.keys().eq(got.keys())
                        && hi.keys().eq(got.keys())
                        && got.iter().all(|(k, g)| {
                            let (l, h) = (&lo[k], &hi[k]);
                            (l.is_subset(g) && g.is_subset(h)) || (h.is_subset(g) && g.is_subset(l))
                        })
                })
            });
            let mode = if between { "in_flight_operation_partially_applied" } else if lost { "acknowledged_write_lost" } else { "unacknowledged_or_dropped_data_present" };
            return Some(Verdict { class: format!("{mode}:{tag}"), detail: format!("recovered {got:?}; admissible {admissible:?}") });
        }
        // probe suffix: delete every tuple that is there, clean restart: everything must be gone
        let mut after_delete = got.clone();
        for (kg, set) in &got {
            for c in set {
                let t = if *c == 'b' { tb() } else { ta() };
                if let Err(e) = s.delete_tuples_from(kg, if *c == 'c' { "rb" } else { "r" }, vec![t]) {
                    return Some(Verdict { class: format!("probe_delete_failed:{tag}"), detail: e.to_string() });
                }
            }
            after_delete.insert(kg.clone(), BTreeSet::new());
        }
        // ... and one fresh tuple is inserted: an acknowledged write after a recovery must survive too
        let fresh = Tuple::new(vec![Value::Int64(9), Value::Int64(9)]);
        if let Err(e) = s.insert_tuples_into(DKG, "probe", vec![fresh.clone()]) {
            return Some(Verdict { class: format!("probe_insert_failed:{tag}"), detail: e.to_string() });
        }
        drop(s);
        let s2 = match StorageEngine::new(mk_config(scratch.path(), buffer, DurabilityMode::Immediate, None)) {
            Ok(s) => s,
            Err(e) => return Some(Verdict { class: format!("restart_after_recovery_failed:{tag}"), detail: e.to_string() }),
        };
        let probe_rows = s2.execute_query_tuples_on(DKG, "vq(X, Y) <- probe(X, Y)").unwrap_or_default();
        if probe_rows.len() != 1 || !crate::e5::same_tuple(&probe_rows[0], &fresh) {
            return Some(Verdict { class: format!("latent_damage_write_after_recovery_lost:{tag}"), detail: format!("after recovery (serving {got:?}) a fresh tuple was inserted and acknowledged; after a clean restart relation probe holds {:?}", probe_rows.iter().map(|t| t.to_string()).collect::<Vec<_>>()) });
        }
        match observe13(&s2) {
            Ok(g2) if g2 == after_delete => None,
            Ok(g2) => Some(Verdict { class: format!("latent_damage_deleted_tuple_resurrected:{tag}"), detail: format!("after recovery the store served {got:?}; every tuple was then deleted and the store restarted cleanly, but it serves {g2:?}") }),
            Err(e) => Some(Verdict { class: format!("recovered_state_unreadable:{tag}"), detail: e }),
        }
    }));
    let v = match r {
        Ok(v) => v,
        Err(p) => Some(Verdict { class: format!("recovery_panicked:{tag}"), detail: crate::e1::panic_msg(&p) }),
    };
    let nested = if record_recovery {
        let text = recovery_log.lock().unwrap().take().unwrap_or_default();
        let _ = std::fs::remove_file(&lp);
        parse_log(&text).ok().map(|r| (r, new_root))
    } else {
        None
    };
    let _ = std::fs::remove_file(&lp);
    (v, nested)
}

fn op_tag(h: &[W13], rec: &Recording, crash: usize) -> String {
    // which operation was in flight (or "between_ops")
    for (i, o) in h.iter().enumerate() {
        let (b, a, _) = rec.ops[i];
        if b < crash && crash <= a {
            return format!("during_{}", w13_name(*o).replace(' ', "_"));
        }
    }
    "between_ops".into()
}

#[derive(Default)]
pub struct CrashStats {
    pub records: u64,
    pub crash_points: u64,
    pub images: u64,
    pub distinct_images: u64,
    pub recoveries: u64,
    pub nested_recoveries: u64,
    pub images_differing_from_clean: u64,
    pub capped_points: u64,
}

/// Explore one recorded history. Violations are reported through `report(class, case, detail)`.
/// `skip` leading operations are the start state's prelude: they are run and recorded, but no crash point lies inside them.
pub fn explore13(h: &[W13], skip: usize, buffer: usize, nested: bool, st: &mut CrashStats, report: &mut dyn FnMut(String, J, String)) -> Result<(), String> {
    let rec = record13(h, buffer)?;
    let lab = label(&rec.recs);
    st.records += rec.recs.len() as u64;
    let first = rec.ops.get(skip).map(|o| o.0).unwrap_or(rec.recs.len());
    let clean = build_image(&rec.recs, &lab, &crash_point(&rec.recs, &lab, rec.recs.len()), &Choice { dir_keep: usize::MAX, data: BTreeMap::new(), partial: None });
    let mut seen: BTreeSet<u64> = BTreeSet::new();
    for crash in first..=rec.recs.len() {
        // a crash "after" a marker is the same point as after the previous real record
        if crash > 0 && matches!(rec.recs[crash - 1], Rec::Mark(_)) && crash != rec.recs.len() {
            continue;
        }
        st.crash_points += 1;
        let cp = crash_point(&rec.recs, &lab, crash);
        let (chs, capped) = choices(&rec.recs, &cp, &lab, 256);
        if capped {
            st.capped_points += 1;
        }
        let adm = admissible13(h, &rec, crash);
        for ch in chs {
            st.images += 1;
            let img = build_image(&rec.recs, &lab, &cp, &ch);
            let key = fnv(format!("{img:?}{adm:?}").as_bytes());
            if !seen.insert(key) {
                continue;
            }
            st.distinct_images += 1;
            if img != clean {
                st.images_differing_from_clean += 1;
            }
            let tag = op_tag(h, &rec, crash);
            st.recoveries += 1;
            let (v, nest) = recover_and_check(&img, &rec.old_root, &adm, buffer, &tag, nested);
            let case = json!({"history": h, "prelude_len": skip, "history_text": h.iter().map(|o| w13_name(*o)).collect::<Vec<_>>(), "buffer_size": buffer, "crash_after_record": crash, "dir_ops_kept": ch.dir_keep.min(cp.volatile_dir.len()), "volatile_dir_ops": cp.volatile_dir.len(), "data_choice": ch.data.values().collect::<Vec<_>>(), "partial_write_bytes": ch.partial});
            if let Some(v) = v {
                report(v.class, case.clone(), format!("history [{}] buffer_size {buffer}: crash after fs record #{crash} ({:?}), {} of {} unsynced directory ops kept, data choices {:?}: {}", h.iter().map(|o| w13_name(*o)).collect::<Vec<_>>().join("; "), rec.recs.get(crash.saturating_sub(1)).map(short_rec), ch.dir_keep.min(cp.volatile_dir.len()), cp.volatile_dir.len(), ch.data.values().collect::<Vec<_>>(), v.detail));
                continue;
            }
            // second level: crash during this recovery
            if let Some((nrecs, nroot)) = nest {
                let nlab = label(&nrecs);
                // the recovery log starts from the materialised image: prepend it as durable content
                for ncrash in 1..=nrecs.len() {
                    let ncp = crash_point(&nrecs, &nlab, ncrash);
                    let (nchs, _) = choices(&nrecs, &ncp, &nlab, 16);
                    for nch in nchs {
                        let delta = build_image(&nrecs, &nlab, &ncp, &nch);
                        let img2 = overlay(&img, &rec.old_root, &delta, &nroot, &nrecs[..ncrash], &nlab, &ncp, &nch);
                        let key = fnv(format!("{img2:?}{adm:?}").as_bytes());
                        if !seen.insert(key) {
                            continue;
                        }
                        st.nested_recoveries += 1;
                        let (v2, _) = recover_and_check(&img2, &rec.old_root, &adm, buffer, &format!("{tag}:crash_during_recovery"), false);
                        if let Some(v2) = v2 {
                            if std::env::var("VERIF_E3_DEBUG").is_ok() {
                                eprintln!("E3DEBUG first-level crash {crash}, nested crash {ncrash}, choice {nch:?}: {}", v2.detail);
                                for (k, r) in nrecs.iter().enumerate().take(ncrash + 2) {
                                    eprintln!("   rec[{k}] {}", short_rec(r));
                                }
                                let mut fl: Vec<String> = img2.files.iter().map(|(p, c)| format!("{}({})", p.rsplit('/').take(2).collect::<Vec<_>>().join("<"), c.len())).collect();
                                fl.sort();
                                eprintln!("   nested image files: {fl:?}");
                                let dd = std::path::PathBuf::from(format!("/dev/shm/t/img2-{crash}-{ncrash}"));
                                let _ = std::fs::remove_dir_all(&dd);
                                let _ = materialize(&img2, &rec.old_root, &dd);
                            }
                            report(v2.class, json!({"first_level": case, "nested_crash_after_record": ncrash}), format!("history [{}] buffer_size {buffer}: crash after fs record #{crash}, then a second crash after record #{ncrash} of the recovery: {}", h.iter().map(|o| w13_name(*o)).collect::<Vec<_>>().join("; "), v2.detail));
                        }
                    }
                }
            }
        }
    }
    Ok(())
}

fn short_rec(r: &Rec) -> String {
    match r {
        Rec::Write { path, off, data } => format!("W {} @{off} +{}", path.rsplit('/').next().unwrap_or(""), data.len()),
        other => {
            let s = format!("{other:?}");
            let s = s.replace("/dev/shm/", "");
            truncate(&s, 100)
        }
    }
}

/// Image after a crash during recovery: the first-level image with the recovery's surviving mutations applied.
/// The recovery ran on `nroot`; paths are mapped back to `old_root`.
#[allow(clippy::too_many_arguments)]
fn overlay(base: &Image, old_root: &str, _delta: &Image, nroot: &str, nrecs: &[Rec], nlab: &Labelled, ncp: &CrashPoint, nch: &Choice) -> Image {
    // replay the recovery's records (with the chosen losses) on top of the base image, path-based:
    // files that exist in the base image are pre-seeded as durable inodes.
    let map = |p: &str| -> String { p.strip_prefix(nroot).map(|r| format!("{old_root}{r}")).unwrap_or_else(|| p.to_string()) };
    let dropped_dir: BTreeSet<usize> = ncp.volatile_dir.iter().skip(nch.dir_keep).copied().collect();
    let mut dropped_data: BTreeSet<usize> = BTreeSet::new();
    for (n, ops) in &ncp.volatile_data {
        if nch.data.get(n).copied().unwrap_or(1) == 0 {
            dropped_data.extend(ops.iter().copied());
        }
    }
    let mut files = base.files.clone();
    let mut dirs = base.dirs.clone();
    // inode -> current path (new inodes) ; writes to pre-existing files go by path
    let mut ino_path: BTreeMap<usize, String> = BTreeMap::new();
    for (j, r) in nrecs.iter().enumerate() {
        if dropped_dir.contains(&j) || dropped_data.contains(&j) {
            continue;
        }
        let cur = |p: &str, ino_path: &BTreeMap<usize, String>| -> String { nlab.inode[j].and_then(|n| ino_path.get(&n).cloned()).unwrap_or_else(|| map(p)) };
        match r {
            Rec::Create(p) => {
                let mp = map(p);
                files.insert(mp.clone(), vec![]);
                if let Some(n) = nlab.inode[j] {
                    ino_path.insert(n, mp);
                }
            }
            Rec::Trunc(p) => {
                let mp = cur(p, &ino_path);
                if let Some(c) = files.get_mut(&mp) {
                    c.clear();
                }
            }
            Rec::Ftrunc { path, len } => {
                let mp = cur(path, &ino_path);
                if let Some(c) = files.get_mut(&mp) {
                    c.resize(*len, 0);
                }
            }
            Rec::Write { path, off, data } => {
                let mp = cur(path, &ino_path);
                if let Some(c) = files.get_mut(&mp) {
                    if c.len() < off + data.len() {
                        c.resize(off + data.len(), 0);
                    }
                    c[*off..off + data.len()].copy_from_slice(data);
                }
            }
            Rec::Rename(a, b) => {
                let (ma, mb) = (map(a), map(b));
                if let Some(c) = files.remove(&ma) {
                    files.insert(mb.clone(), c);
                    for v in ino_path.values_mut() {
                        if *v == ma {
                            *v = mb.clone();
                        }
                    }
                }
            }
            Rec::Unlink(p) => {
                files.remove(&map(p));
            }
            Rec::Mkdir(p) => {
                dirs.insert(map(p));
            }
            Rec::Rmdir(p) => {
                dirs.remove(&map(p));
            }
            _ => {}
        }
    }
    // relocation of absolute paths written by the recovery itself (json files) back to the old root
    for (p, c) in files.iter_mut() {
        if p.ends_with(".json") || p.ends_with(".json.tmp") {
            let t = String::from_utf8_lossy(c).replace(nroot, old_root);
            *c = t.into_bytes();
        }
    }
    Image { files, dirs }
}

// ---------------------------------------------------------------------------------------- C13 driver

pub fn c13(args: &Args) -> i32 {
    quiet_panics();
    let run = Run::new(args, "fault_enumeration", 110.0, 1500.0);
    if !recorder_active() {
        run.machinery_error("file-system recorder not active (LD_PRELOAD=shim/fsshim.so and VERIF_FS_ROOT=/dev/shm/verif- are set by ./check)".into());
        return run.finish();
    }
    if let Some(p) = &args.replay {
        let j = read_replay(p);
        let c = if j["case"]["first_level"].is_object() { &j["case"]["first_level"] } else { &j["case"] };
        let h: Vec<W13> = serde_json::from_value(c["history"].clone()).expect("history");
        let buffer = c["buffer_size"].as_u64().unwrap_or(10000) as usize;
        let mut st = CrashStats::default();
        let mut found = vec![];
        let want = j["class"].as_str().unwrap_or("").to_string();
        let skip = c["prelude_len"].as_u64().unwrap_or(0) as usize;
        let r = explore13(&h, skip, buffer, j["case"]["first_level"].is_object(), &mut st, &mut |c, _case, d| found.push((c, d)));
        if let Err(e) = r {
            eprintln!("MACHINERY-ERROR: {e}");
            return 2;
        }
        println!("re-explored the whole history [{}] (buffer {buffer}): {} crash points, {} images", h.iter().map(|o| w13_name(*o)).collect::<Vec<_>>().join("; "), st.crash_points, st.distinct_images);
        let hit: Vec<&(String, String)> = found.iter().filter(|(c, _)| want.is_empty() || *c == want).collect();
        for (c, d) in hit.iter().take(3) {
            println!("class={c} {d}");
        }
        if !hit.is_empty() {
            println!("VIOLATION property=C13 replay={}", p.display());
            return 1;
        }
        println!("replay: property holds on this history");
        return 0;
    }
    run.set_rule("histories over {ins a, ins b, del a, ins [a,b], save_all, compact_all, drop relation, create kg k, k: ins a, drop kg k, rb: ins a (second relation), clear prefix r (both relations)} on a real StorageEngine (immediate durability), recorded by the LD_PRELOAD file-system shim: ALL histories up to length L x buffer_size in {1, 10000} (thorough: + 2) from the empty store, and ALL histories up to length L over {clear prefix, save_all, compact_all, del a, ins b, drop relation, rb: ins a} from two further start states (both relations populated in the WAL only; both populated and flushed) - crash points lie in the explored history, not in the prelude. For EVERY crash point (after every recorded file-system mutation, plus partial completions of an in-flight write at 1 / half / n-1 bytes) EVERY admissible crash image is built (unsynced directory operations lost as a suffix of the global sequence, any fsync is a barrier; per file, data written since its last fsync kept / lost / last write cut in half), materialised, and recovered with the real StorageEngine::new. Verdict per image: recovery succeeds; served contents of every KG equal the model after the acknowledged operations, optionally plus the operation in flight; then every served tuple is deleted and the store restarted cleanly - it must be empty (exposes double-applied log entries). Thorough: every first-level recovery is itself recorded and crashed at each of its mutation boundaries. non-trivial = distinct crash images that differ from the clean final image");
    run.assume("crash model: ext4 data=ordered / xfs-like - directory operations are journalled in one global order and any fsync commits the journal; the stricter per-directory model is not used for verdicts");
    run.assume("tmpfs holds the materialised images; recovery runs in-process");
    let quick = run.quick();
    let max_len = if quick { 2 } else { 3 };
    let buffers: Vec<usize> = if quick { vec![1, 10000] } else { vec![1, 2, 10000] };
    // (history including its prelude, prelude length)
    let mut hist: Vec<(Vec<W13>, usize)> = vec![];
    for (pi, prelude) in W13_PRELUDES.iter().enumerate() {
        let alpha: Vec<W13> = if pi == 0 { W13_ALL.to_vec() } else { W13_AFTER_PRELUDE.to_vec() };
        let mut level: Vec<Vec<W13>> = vec![prelude.to_vec()];
        for _ in 0..max_len {
            let mut nx = vec![];
            for p in &level {
                for o in &alpha {
                    let mut q = p.clone();
                    q.push(*o);
                    nx.push(q);
                }
            }
            hist.extend(nx.iter().map(|h| (h.clone(), prelude.len())));
            level = nx;
        }
    }
    // with buffer_size 1 every write is flushed at once, so the "populated, WAL only" start state exists only
    // with the large buffer; the flushed start state is explored with both
    let cases: Vec<(Vec<W13>, usize, usize)> = hist.iter().flat_map(|(h, k)| buffers.iter().filter(move |b| !(*k == 2 && **b != 10000)).map(move |b| (h.clone(), *k, *b))).collect();
    run.put("histories", json!(hist.len()));
    run.put("cases", json!(cases.len()));
    let totals = std::sync::Mutex::new(CrashStats::default());
    let done = run.par_for(cases.len(), threads(), |i, l| {
        let (h, skip, b) = &cases[i];
        let mut st = CrashStats::default();
        let nested = !quick;
        let mut found: Vec<(String, J, String)> = vec![];
        let r = catch_unwind(AssertUnwindSafe(|| explore13(h, *skip, *b, nested, &mut st, &mut |c, case, d| found.push((c, case, d)))));
        match r {
            Ok(Ok(())) => {}
            Ok(Err(e)) => run.machinery_error(format!("history {h:?} buffer {b}: {e}")),
            Err(p) => run.machinery_error(format!("history {h:?} buffer {b}: explorer panicked: {}", crate::e1::panic_msg(&p))),
        }
        for (c, case, d) in found {
            run.violation(&c, case, d);
        }
        l.evaluations += st.recoveries + st.nested_recoveries;
        for k in 0..st.images_differing_from_clean {
            l.nontrivial(fnv(format!("{i}/{k}").as_bytes()));
        }
        l.outcome(st.distinct_images % 97);
        if run.want_sample() && i % 37 == 5 {
            run.sample(json!({"history": h.iter().map(|o| w13_name(*o)).collect::<Vec<_>>(), "buffer_size": b, "fs_records": st.records, "crash_points": st.crash_points, "distinct_images": st.distinct_images}));
        }
        let mut t = totals.lock().unwrap();
        t.records += st.records;
        t.crash_points += st.crash_points;
        t.images += st.images;
        t.distinct_images += st.distinct_images;
        t.recoveries += st.recoveries;
        t.nested_recoveries += st.nested_recoveries;
        t.images_differing_from_clean += st.images_differing_from_clean;
        t.capped_points += st.capped_points;
    });
    let t = totals.lock().unwrap();
    run.put("histories_completed", json!(done));
    run.put("fs_records", json!(t.records));
    run.put("crash_points", json!(t.crash_points));
    run.put("images_built", json!(t.images));
    run.put("distinct_images", json!(t.distinct_images));
    run.put("recoveries", json!(t.recoveries));
    run.put("nested_recoveries", json!(t.nested_recoveries));
    run.put("crash_points_with_image_cap_hit", json!(t.capped_points));
    if t.capped_points > 0 {
        run.put("exhaustive", json!(false));
        run.put("exhaustive_note", json!("at some crash points the number of admissible images exceeded the per-point cap; the first images in enumeration order were taken there (count in crash_points_with_image_cap_hit)"));
    }
    run.put("max_history_length", json!(max_len));
    drop(t);
    run.finish()
}

// ---------------------------------------------------------------------------------------- C16 crash leg

use crate::e2_handler::Env;

/// Catalog operations (indices into e2_kg::C16_OPS that change catalogs; no save / restart)
const C16_CRASH_OPS: [usize; 10] = [0, 1, 2, 3, 4, 5, 6, 7, 8, 9];
type Cat = (BTreeMap<String, String>, BTreeMap<String, String>);

fn cat_of(env: &Env) -> Cat {
    let st = env.kg_state("A");
    (st.rules, st.schemas)
}

fn c16_exec(env: &Env, op: usize) {
    use crate::e2_kg::C16_OPS;
    if op == 9 {
        let _ = env.handler.get_storage().remove_schema_in("A", "s");
    } else {
        let _ = env.query_program(Some("A"), C16_OPS[op]);
    }
}

struct Rec16 {
    recs: Vec<Rec>,
    old_root: String,
    ops: Vec<(usize, usize)>,
    /// catalog observed live before op 0, after op 0, ...
    states: Vec<Cat>,
}

fn record16(h: &[usize]) -> Result<Rec16, String> {
    let env = Env::new("c16rec");
    let root = env.scratch.path().to_path_buf();
    let lp = log_path(&root);
    env.create_kg("A");
    let mut states = vec![cat_of(&env)];
    for (i, o) in h.iter().enumerate() {
        fs_mark(&root, &format!("begin {i}"));
        c16_exec(&env, *o);
        fs_mark(&root, &format!("ack {i} ok"));
        states.push(cat_of(&env));
    }
    fs_mark(&root, "end");
    let text = std::fs::read_to_string(&lp).unwrap_or_default();
    let old_root = root.to_str().unwrap().to_string();
    drop(env);
    let _ = std::fs::remove_file(&lp);
    let recs = parse_log(&text)?;
    let mut ops = vec![(0usize, 0usize); h.len()];
    for (j, r) in recs.iter().enumerate() {
        if let Rec::Mark(t) = r {
            let p: Vec<&str> = t.split(' ').collect();
            match p[0] {
                "begin" => ops[p[1].parse::<usize>().unwrap()].0 = j,
                "ack" => ops[p[1].parse::<usize>().unwrap()].1 = j,
                _ => {}
            }
        }
    }
    Ok(Rec16 { recs, old_root, ops, states })
}

fn explore16(h: &[usize], st: &mut CrashStats, report: &mut dyn FnMut(String, J, String)) -> Result<(), String> {
    use crate::e2_kg::C16_OPS;
    let rec = record16(h)?;
    let lab = label(&rec.recs);
    st.records += rec.recs.len() as u64;
    let first = rec.ops.first().map(|o| o.0).unwrap_or(0);
    let clean = build_image(&rec.recs, &lab, &crash_point(&rec.recs, &lab, rec.recs.len()), &Choice { dir_keep: usize::MAX, data: BTreeMap::new(), partial: None });
    let mut seen: BTreeSet<u64> = BTreeSet::new();
    let hs = h.iter().map(|o| C16_OPS[*o]).collect::<Vec<_>>().join(" ; ");
    for crash in first..=rec.recs.len() {
        if crash > 0 && matches!(rec.recs[crash - 1], Rec::Mark(_)) && crash != rec.recs.len() {
            continue;
        }
        st.crash_points += 1;
        // admissible catalogs: after the ops completed before the crash, optionally plus the op in flight
        let completed = rec.ops.iter().filter(|(_, a)| *a < crash).count();
        let in_flight = rec.ops.iter().any(|(b, a)| *b < crash && crash <= *a);
        let mut adm = vec![rec.states[completed].clone()];
        if in_flight {
            adm.push(rec.states[completed + 1].clone());
        }
        let inflight_op = if in_flight { C16_OPS[h[completed]] } else { "between_ops" };
        let kind = if !in_flight {
            "between_ops"
        } else if inflight_op.starts_with("+s") || inflight_op.starts_with("remove schema") {
            "during_schema_update"
        } else {
            "during_rule_update"
        };
        let cp = crash_point(&rec.recs, &lab, crash);
        let (chs, capped) = choices(&rec.recs, &cp, &lab, 128);
        if capped {
            st.capped_points += 1;
        }
        for ch in chs {
            st.images += 1;
            let img = build_image(&rec.recs, &lab, &cp, &ch);
            let key = fnv(format!("{img:?}{adm:?}").as_bytes());
            if !seen.insert(key) {
                continue;
            }
            st.distinct_images += 1;
            if img != clean {
                st.images_differing_from_clean += 1;
            }
            st.recoveries += 1;
            let scratch = Scratch::new("c16img");
            let verdict: Option<(String, String)> = (|| {
                if let Err(e) = materialize(&img, &rec.old_root, scratch.path()) {
                    return Some(("machinery:materialize".to_string(), e.to_string()));
                }
                let r = catch_unwind(AssertUnwindSafe(|| Env::open(Scratch(scratch.path().to_path_buf()))));
                match r {
                    Err(p) => Some((format!("recovery_panicked:{kind}"), crate::e1::panic_msg(&p))),
                    Ok(Err(e)) => Some((format!("store_unopenable_after_crash:{kind}"), format!("StorageEngine::new failed: {e}"))),
                    Ok(Ok(env)) => {
                        let kgs = env.handler.get_storage().list_knowledge_graphs();
                        let got = cat_of(&env);
                        // the image directory belongs to the outer `scratch`: every Env over it gives its handle up
                        let release = |e: Env| std::mem::forget(std::mem::replace(&mut { e }.scratch, Scratch(PathBuf::from("/nonexistent-verif"))));
                        if !kgs.iter().any(|k| k == "A") {
                            release(env);
                            // the KG itself may legitimately be missing only while its creation has not completed
                            return if crash <= first { None } else { Some((format!("knowledge_graph_lost:{kind}"), format!("KG A is not listed after recovery: {kgs:?}"))) };
                        }
                        if adm.contains(&got) {
                            // probe suffix: the recovered store keeps working - one acknowledged catalog update that
                            // SHRINKS each catalog that has an entry (a drop) or grows an empty one, then a clean
                            // restart; the catalogs served after the restart must be the ones served before it
                            let rule_op = match got.0.keys().next() {
                                Some(name) => format!(".rule drop {name}"),
                                None => "+zprobe(X) <- e(X)".to_string(),
                            };
                            let _ = env.query_program(Some("A"), &rule_op);
                            match got.1.keys().next() {
                                Some(name) => {
                                    let _ = env.handler.get_storage().remove_schema_in("A", name);
                                }
                                None => {
                                    let _ = env.query_program(Some("A"), "+zschema(a: int)");
                                }
                            }
                            let live = cat_of(&env);
                            let v = match catch_unwind(AssertUnwindSafe(|| env.restart())) {
                                Err(p) => Some((format!("latent_damage:restart_after_recovery_panicked:{kind}"), crate::e1::panic_msg(&p))),
                                Ok(Err(e)) => Some((format!("latent_damage:store_unopenable_after_recovery_and_update:{kind}"), format!("recovered catalogs {got:?}; then `{rule_op}` and a schema update were acknowledged; the clean restart failed: {e}"))),
                                Ok(Ok(env2)) => {
                                    let after = cat_of(&env2);
                                    release(env2);
                                    if after == live {
                                        None
                                    } else {
                                        Some((format!("latent_damage:catalog_differs_after_recovery_update_restart:{kind}"), format!("recovered catalogs {got:?}; after `{rule_op}` and a schema update the store served {live:?}; after a clean restart it serves {after:?}")))
                                    }
                                }
                            };
                            v
                        } else {
                            release(env);
                            let emptied = (got.0.is_empty() && adm.iter().all(|a| !a.0.is_empty())) || (got.1.is_empty() && adm.iter().all(|a| !a.1.is_empty()));
                            let mode = if emptied { "catalog_silently_emptied" } else { "catalog_neither_old_nor_new" };
                            Some((format!("{mode}:{kind}"), format!("recovered rules {:?} schemas {:?}; admissible {adm:?}", got.0, got.1)))
                        }
                    }
                }
            })();
            if let Some((c, d)) = verdict {
                report(
                    c,
                    json!({"leg": "crash", "history_idx": h, "history": h.iter().map(|o| C16_OPS[*o]).collect::<Vec<_>>(), "crash_after_record": crash, "dir_ops_kept": ch.dir_keep.min(cp.volatile_dir.len()), "data_choice": ch.data.values().collect::<Vec<_>>(), "partial_write_bytes": ch.partial}),
                    format!("history [{hs}]: crash after fs record #{crash} ({:?}), in flight: {inflight_op}; {} of {} unsynced directory ops kept, data choices {:?}, partial write {:?}: {d}", rec.recs.get(crash.saturating_sub(1)).map(short_rec), ch.dir_keep.min(cp.volatile_dir.len()), cp.volatile_dir.len(), ch.data.values().collect::<Vec<_>>(), ch.partial),
                );
            }
        }
    }
    Ok(())
}

pub fn c16_crash_leg(_args: &Args, run: &Run) {
    if !recorder_active() {
        run.machinery_error("file-system recorder not active (LD_PRELOAD=shim/fsshim.so and VERIF_FS_ROOT=/dev/shm/verif- are set by ./check)".into());
        return;
    }
    let max_len = if run.quick() { 2 } else { 3 };
    let mut hist: Vec<Vec<usize>> = vec![];
    let mut level: Vec<Vec<usize>> = vec![vec![]];
    for _ in 0..max_len {
        let mut nx = vec![];
        for p in &level {
            for o in C16_CRASH_OPS {
                let mut q = p.clone();
                q.push(o);
                nx.push(q);
            }
        }
        hist.extend(nx.iter().cloned());
        level = nx;
    }
    run.put("crash_histories", json!(hist.len()));
    let totals = std::sync::Mutex::new(CrashStats::default());
    let done = run.par_for(hist.len(), threads(), |i, l| {
        let h = &hist[i];
        let mut st = CrashStats::default();
        let mut found: Vec<(String, J, String)> = vec![];
        let r = catch_unwind(AssertUnwindSafe(|| explore16(h, &mut st, &mut |c, case, d| found.push((c, case, d)))));
        match r {
            Ok(Ok(())) => {}
            Ok(Err(e)) => run.machinery_error(format!("C16 crash history {h:?}: {e}")),
            Err(p) => run.machinery_error(format!("C16 crash history {h:?}: explorer panicked: {}", crate::e1::panic_msg(&p))),
        }
        for (c, case, d) in found {
            run.violation(&format!("crash:{c}"), case, d);
        }
        l.evaluations += st.recoveries;
        for k in 0..st.images_differing_from_clean {
            l.nontrivial(fnv(format!("c16/{i}/{k}").as_bytes()));
        }
        if run.want_sample() && i % 17 == 3 {
            run.sample(json!({"leg": "crash", "history": h.iter().map(|o| crate::e2_kg::C16_OPS[*o]).collect::<Vec<_>>(), "fs_records": st.records, "crash_points": st.crash_points, "distinct_images": st.distinct_images}));
        }
        let mut t = totals.lock().unwrap();
        t.records += st.records;
        t.crash_points += st.crash_points;
        t.images += st.images;
        t.distinct_images += st.distinct_images;
        t.recoveries += st.recoveries;
        t.capped_points += st.capped_points;
    });
    let t = totals.lock().unwrap();
    run.put("crash_histories_completed", json!(done));
    run.put("crash_fs_records", json!(t.records));
    run.put("crash_points", json!(t.crash_points));
    run.put("crash_images_built", json!(t.images));
    run.put("crash_distinct_images", json!(t.distinct_images));
    run.put("crash_recoveries", json!(t.recoveries));
    run.put("crash_points_with_image_cap_hit", json!(t.capped_points));
    if t.capped_points > 0 {
        run.put("exhaustive", json!(false));
        run.put("exhaustive_note", json!("at some crash points the number of admissible images exceeded the per-point cap; the first images in enumeration order were taken there (count in crash_points_with_image_cap_hit)"));
    }
}

pub fn c16_replay(_args: &Args, j: &J) -> i32 {
    let h: Vec<usize> = serde_json::from_value(j["case"]["history_idx"].clone()).expect("history_idx");
    let want = j["class"].as_str().unwrap_or("").trim_start_matches("crash:").to_string();
    let mut st = CrashStats::default();
    let mut found = vec![];
    if let Err(e) = explore16(&h, &mut st, &mut |c, _case, d| found.push((c, d))) {
        eprintln!("MACHINERY-ERROR: {e}");
        return 2;
    }
    let hit: Vec<&(String, String)> = found.iter().filter(|(c, _)| want.is_empty() || *c == want).collect();
    for (c, d) in hit.iter().take(3) {
        println!("class=crash:{c} {d}");
    }
    if !hit.is_empty() {
        println!("VIOLATION property=C16 replay=(re-explored history {h:?})");
        return 1;
    }
    println!("replay: property holds on this history");
    0
}
