//! E4 SCHED — exhaustive exploration of thread interleavings of REAL InputLayer code at the cfg-guarded
//! scheduling points (`inputlayer::verif_hooks`), CHESS-style: participants are real OS threads, exactly one
//! runs at a time, a controller picks who continues at every hook, schedules are enumerated by iterative
//! context bounding (all schedules with 0 preemptions, then 1, then 2, ...).
//!
//! A participant parks at a hook and reports the site; when nobody runs the controller asks every parked
//! participant to evaluate its probe (a side-effect-free try-acquire of the lock it is about to take) on its
//! own thread; enabled = probe true. No enabled participant while some are unfinished = deadlock.

use inputlayer::verif_hooks::{self, Scheduler};
use parking_lot::{Condvar, Mutex};
use std::sync::{Arc, OnceLock};
use std::time::{Duration, Instant};

const MAX_PARTS: usize = 8;
const MAX_INSTANCES: usize = 64;

#[derive(Clone, Debug, PartialEq)]
enum P {
    Absent,
    NotStarted,
    Running,
    Parked { site: &'static str, eval_req: bool, enabled: Option<bool> },
    Finished,
}

pub struct Instance {
    st: Mutex<Vec<P>>,
    cv: Condvar,
}

impl Instance {
    fn new() -> Instance {
        Instance { st: Mutex::new(vec![P::Absent; MAX_PARTS]), cv: Condvar::new() }
    }
    fn at(&self, tid: usize, site: &'static str, probe: &dyn Fn() -> bool) {
        let mut g = self.st.lock();
        g[tid] = P::Parked { site, eval_req: false, enabled: None };
        self.cv.notify_all();
        loop {
            self.cv.wait(&mut g);
            match &mut g[tid] {
                P::Parked { eval_req, enabled, .. } if *eval_req => {
                    *enabled = Some(probe());
                    *eval_req = false;
                    self.cv.notify_all();
                }
                P::Running => return,
                _ => {}
            }
        }
    }
    fn finish(&self, tid: usize) {
        let mut g = self.st.lock();
        g[tid] = P::Finished;
        self.cv.notify_all();
    }
}

struct Router {
    instances: Vec<Arc<Instance>>,
}
impl Scheduler for Router {
    fn at(&self, participant: usize, site: &'static str, probe: &dyn Fn() -> bool) {
        self.instances[participant / MAX_PARTS].at(participant % MAX_PARTS, site, probe);
    }
}
static ROUTER: OnceLock<Arc<Router>> = OnceLock::new();
static NEXT_INSTANCE: std::sync::atomic::AtomicUsize = std::sync::atomic::AtomicUsize::new(0);
thread_local! {
    static MY_INSTANCE: std::cell::Cell<Option<usize>> = const { std::cell::Cell::new(None) };
}

fn router() -> Arc<Router> {
    ROUTER
        .get_or_init(|| {
            let r = Arc::new(Router { instances: (0..MAX_INSTANCES).map(|_| Arc::new(Instance::new())).collect() });
            verif_hooks::install(Some(r.clone() as Arc<dyn Scheduler>));
            r
        })
        .clone()
}
/// Index of the scheduler instance owned by the calling (exploring) thread.
pub fn my_instance_index() -> usize {
    my_instance().0
}
/// Let a helper thread (a fresh thread per execution, see `fresh_thread`) drive the exploring thread's instance.
pub fn adopt_instance(idx: usize) {
    let _ = router();
    MY_INSTANCE.with(|c| c.set(Some(idx)));
}
/// Run `f` on a fresh OS thread that drives the caller's scheduler instance. std's HashMap/DashMap seeds are
/// per-thread counters started from a 16-byte OS entropy draw, which the shim pins (verif_entropy_pin16): on a
/// fresh thread every hash map created by the same code gets the same seed, so iteration order - and with it
/// the order of hook sites - is reproducible from one execution to the next.
pub fn fresh_thread<T: Send>(f: impl FnOnce() -> T + Send) -> T {
    pin16();
    let idx = my_instance_index();
    std::thread::scope(|s| {
        s.spawn(move || {
            adopt_instance(idx);
            f()
        })
        .join()
        .expect("execution thread panicked")
    })
}
fn pin16() {
    static ONCE: std::sync::Once = std::sync::Once::new();
    ONCE.call_once(|| {
        let name = std::ffi::CString::new("verif_entropy_pin16").unwrap();
        let p = unsafe { libc::dlsym(libc::RTLD_DEFAULT, name.as_ptr()) };
        if !p.is_null() {
            let f: unsafe extern "C" fn(i32) = unsafe { std::mem::transmute(p) };
            unsafe { f(1) };
        }
    });
}
/// The scheduler instance owned by the calling (exploring) thread.
fn my_instance() -> (usize, Arc<Instance>) {
    let r = router();
    let idx = MY_INSTANCE.with(|c| {
        if c.get().is_none() {
            let i = NEXT_INSTANCE.fetch_add(1, std::sync::atomic::Ordering::SeqCst);
            assert!(i < MAX_INSTANCES, "too many exploring threads");
            c.set(Some(i));
        }
        c.get().unwrap()
    });
    (idx, r.instances[idx].clone())
}

#[derive(Clone, Debug)]
pub struct Point {
    /// enabled participants in canonical order (the one that ran last first, if still enabled, then ascending)
    pub enabled: Vec<usize>,
    pub chosen: usize,
    /// site at which the chosen participant was parked
    pub site: &'static str,
    /// true if the participant that ran the previous step was still enabled here
    pub running_still_enabled: bool,
}

#[derive(Debug)]
pub enum ExecError {
    Deadlock { parked: Vec<(usize, &'static str)> },
    /// a participant neither reached a hook nor finished: it blocks on something un-instrumented (machinery error)
    Stuck { sites: Vec<String> },
    /// a participant blocked on something without a scheduling point (e.g. a lock acquisition that a change to
    /// the code under test introduced) while the holder was parked; the execution was finished free-running and
    /// is discarded: it is neither judged nor expanded (counted by `explore`)
    Uninstrumented { sites: Vec<String> },
    Diverged(String),
}

pub type Body = Box<dyn FnOnce() + Send + 'static>;

/// Run one execution: `bodies[i]` is participant i. `prefix` = choice indices for the first steps, then choice 0.
/// `on_step(step)` is called by the controller at every quiescent point before a participant is released.
pub fn execute(bodies: Vec<Body>, prefix: &[usize], on_step: &mut dyn FnMut(usize)) -> Result<Vec<Point>, ExecError> {
    let n = bodies.len();
    assert!(n <= MAX_PARTS);
    let (idx, inst) = my_instance();
    {
        let mut g = inst.st.lock();
        for (i, p) in g.iter_mut().enumerate() {
            *p = if i < n { P::NotStarted } else { P::Absent };
        }
    }
    let mut handles = vec![];
    for (tid, body) in bodies.into_iter().enumerate() {
        let inst2 = inst.clone();
        handles.push(std::thread::spawn(move || {
            verif_hooks::enter(idx * MAX_PARTS + tid);
            verif_hooks::point("start");
            let r = std::panic::catch_unwind(std::panic::AssertUnwindSafe(body));
            verif_hooks::leave();
            inst2.finish(tid);
            r.is_ok()
        }));
    }
    let mut points: Vec<Point> = vec![];
    let mut last: Option<usize> = None;
    let result = loop {
        // quiescence: everybody parked or finished
        let mut g = inst.st.lock();
        let deadline = Instant::now() + Duration::from_secs(4);
        let mut stuck = false;
        while g.iter().any(|p| matches!(p, P::Running | P::NotStarted)) {
            if self_timed_out(&inst, &mut g, deadline) {
                stuck = true;
                break;
            }
        }
        if stuck {
            let sites = g.iter().enumerate().map(|(i, p)| format!("{i}:{p:?}")).collect();
            break Err(ExecError::Stuck { sites });
        }
        if g.iter().all(|p| matches!(p, P::Finished | P::Absent)) {
            break Ok(());
        }
        // probes
        for p in g.iter_mut() {
            if let P::Parked { eval_req, enabled, .. } = p {
                *eval_req = true;
                *enabled = None;
            }
        }
        inst.cv.notify_all();
        let deadline = Instant::now() + Duration::from_secs(10);
        let mut stuck = false;
        while g.iter().any(|p| matches!(p, P::Parked { enabled: None, .. })) {
            if self_timed_out(&inst, &mut g, deadline) {
                stuck = true;
                break;
            }
        }
        if stuck {
            break Err(ExecError::Stuck { sites: vec!["probe evaluation timed out".into()] });
        }
        let mut enabled: Vec<usize> = g.iter().enumerate().filter(|(_, p)| matches!(p, P::Parked { enabled: Some(true), .. })).map(|(i, _)| i).collect();
        if enabled.is_empty() {
            let parked = g.iter().enumerate().filter_map(|(i, p)| if let P::Parked { site, .. } = p { Some((i, *site)) } else { None }).collect();
            break Err(ExecError::Deadlock { parked });
        }
        let running_still_enabled = last.is_some_and(|l| enabled.contains(&l));
        if let Some(l) = last {
            if let Some(pos) = enabled.iter().position(|x| *x == l) {
                enabled.remove(pos);
                enabled.insert(0, l);
            }
        }
        let step = points.len();
        drop(g);
        on_step(step);
        let mut g = inst.st.lock();
        let choice = prefix.get(step).copied().unwrap_or(0);
        if choice >= enabled.len() {
            break Err(ExecError::Diverged(format!("step {step}: schedule asks for choice {choice} but only {} participants are enabled", enabled.len())));
        }
        let tid = enabled[choice];
        let site = if let P::Parked { site, .. } = &g[tid] { *site } else { "?" };
        points.push(Point { enabled: enabled.clone(), chosen: tid, site, running_still_enabled });
        g[tid] = P::Running; // the controller moves the thread out of the parked set
        last = Some(tid);
        inst.cv.notify_all();
    };
    if result.is_err() {
        // release everybody so that the threads can end: mark all parked as running repeatedly
        let deadline = Instant::now() + Duration::from_secs(30);
        loop {
            let mut g = inst.st.lock();
            if g.iter().all(|p| matches!(p, P::Finished | P::Absent)) || Instant::now() > deadline {
                break;
            }
            for p in g.iter_mut() {
                if matches!(p, P::Parked { .. }) {
                    *p = P::Running;
                }
            }
            inst.cv.notify_all();
            inst.cv.wait_for(&mut g, Duration::from_millis(20));
        }
    }
    let all_ended = inst.st.lock().iter().all(|p| matches!(p, P::Finished | P::Absent));
    let result = match result {
        // everybody ended once the parked participants were let go: the blocking was on a lock held by a parked
        // participant, acquired at a place that has no scheduling point
        Err(ExecError::Stuck { sites }) if all_ended => Err(ExecError::Uninstrumented { sites }),
        other => other,
    };
    let stuck_threads = matches!(result, Err(ExecError::Stuck { .. }));
    for h in handles {
        if stuck_threads {
            // a stuck participant may never return: do not join it (the process exits with a machinery error)
            continue;
        }
        let _ = h.join();
    }
    result.map(|_| points)
}

fn self_timed_out(inst: &Instance, g: &mut parking_lot::MutexGuard<'_, Vec<P>>, deadline: Instant) -> bool {
    let r = inst.cv.wait_until(g, deadline);
    r.timed_out()
}

pub fn preemptions(points: &[Point]) -> usize {
    points.iter().filter(|p| p.running_still_enabled && p.enabled.first() != Some(&p.chosen)).count()
}

/// process-wide count of discarded executions (reported in the evidence by `Run::finish` callers)
pub static DISCARDED: std::sync::atomic::AtomicU64 = std::sync::atomic::AtomicU64::new(0);

pub struct ExploreStats {
    pub schedules: u64,
    pub steps: u64,
    pub max_preemptions_completed: usize,
    pub capped: bool,
    pub deadlocks: u64,
    /// executions discarded because a participant blocked where there is no scheduling point
    pub discarded: u64,
}

/// Iterative context bounding. `run_one(prefix)` executes one schedule and returns its points (it checks
/// its own oracle and reports violations itself). Returns statistics. `budget` stops the walk (capped).
pub fn explore(max_bound: usize, deadline: Instant, run_one: &mut dyn FnMut(&[usize], usize) -> Result<Vec<Point>, ExecError>) -> Result<ExploreStats, ExecError> {
    let mut st = ExploreStats { schedules: 0, steps: 0, max_preemptions_completed: 0, capped: false, deadlocks: 0, discarded: 0 };
    // schedules are identified by their full choice vector; bound b explores exactly those with <= b preemptions.
    // To count each schedule once, explore bound b and skip schedules with < b preemptions (already seen) when b > 0.
    for bound in 0..=max_bound {
        let mut stack: Vec<Vec<usize>> = vec![vec![]];
        let mut completed = true;
        while let Some(prefix) = stack.pop() {
            if Instant::now() > deadline {
                st.capped = true;
                completed = false;
                break;
            }
            let points = match run_one(&prefix, bound) {
                Ok(p) => p,
                Err(ExecError::Deadlock { .. }) => {
                    st.deadlocks += 1;
                    st.schedules += 1;
                    continue;
                }
                Err(ExecError::Uninstrumented { sites }) => {
                    st.discarded += 1;
                    if st.discarded <= 3 {
                        eprintln!("NOTE: schedule {prefix:?} discarded: a participant blocked where there is no scheduling point ({sites:?})");
                    }
                    DISCARDED.fetch_add(1, std::sync::atomic::Ordering::Relaxed);
                    continue;
                }
                Err(e) => return Err(e),
            };
            // replay check: the prefix must have been followed
            for (i, c) in prefix.iter().enumerate() {
                if points.get(i).map(|p| p.enabled.get(*c).copied()) != Some(Some(points[i].chosen)) {
                    return Err(ExecError::Diverged(format!("prefix {prefix:?} was not followed at step {i}")));
                }
            }
            let total_preempt = preemptions(&points);
            if bound == 0 || total_preempt == bound {
                st.schedules += 1;
                st.steps += points.len() as u64;
            }
            // children: deviate at every later point
            let choices: Vec<usize> = points.iter().map(|p| p.enabled.iter().position(|x| *x == p.chosen).unwrap()).collect();
            for i in prefix.len()..points.len() {
                let p = &points[i];
                let before = preemptions(&points[..i]);
                for alt in 1..p.enabled.len() {
                    let cost = before + if p.running_still_enabled { 1 } else { 0 };
                    if cost > bound {
                        continue;
                    }
                    let mut np = choices[..i].to_vec();
                    np.push(alt);
                    stack.push(np);
                }
            }
        }
        if !completed {
            break;
        }
        st.max_preemptions_completed = bound;
    }
    Ok(st)
}
