//! C10, E4 leg — two sessions, a persistent writer and a session-less client as real threads on one real Handler,
//! every schedule up to a preemption bound at the scheduling points of the session manager, the session query
//! slow path and the storage engine. Oracle: brute-force linearizability of the recorded request/answer history
//! against the C10 model (each query answers "persistent data at some instant between its call and return plus
//! the asking session's own facts and rules"), including the state every observer sees after the threads end.
use crate::common::*;
use crate::e2_c10::{compare, observe_final, Model, Op, Sut, QUERIES};
use crate::e4::*;
use serde::{Deserialize, Serialize};
use serde_json::json;
use std::collections::BTreeSet;
use std::sync::{Arc, Mutex};
use std::time::Duration;

#[derive(Clone, Debug, Serialize, Deserialize, PartialEq)]
pub enum TOp {
    Req(String),
    /// observer (0, 1 = session, 2 = session-less) asks query number q of QUERIES
    Query(usize, usize),
}

#[derive(Clone, Debug, Serialize, Deserialize)]
pub struct Scenario {
    pub name: String,
    pub setup: Vec<String>,
    pub threads: Vec<Vec<TOp>>,
}

fn op(s: &str) -> Op {
    crate::e2_c10::parse_op(s).unwrap_or_else(|| panic!("bad op {s}"))
}

pub fn scenarios() -> Vec<Scenario> {
    let sc = |name: &str, setup: &[&str], threads: Vec<Vec<TOp>>| Scenario { name: name.into(), setup: setup.iter().map(|s| s.to_string()).collect(), threads };
    let r = |s: &str| TOp::Req(s.into());
    let q = |who: usize, rel: &str| TOp::Query(who, QUERIES.iter().position(|(r, _)| *r == rel).unwrap());
    vec![
        sc("fact_added_while_other_session_queries", &["WRule(0)", "WIns(3, 3)"], vec![vec![r("Fact(0, 1, 2)"), q(0, "p")], vec![q(1, "p"), q(1, "e")]]),
        sc("two_dirty_sessions_and_a_writer", &["WRule(0)", "Fact(0, 1, 2)", "Fact(1, 2, 1)"], vec![vec![q(0, "p")], vec![q(1, "p")], vec![r("WIns(3, 3)"), r("WDel(3, 3)")]]),
        sc("clear_while_other_session_queries", &["WRule(0)", "WRule(1)", "WIns(1, 2)", "Fact(0, 1, 2)", "Rule(0, 0)", "Fact(1, 2, 1)"], vec![vec![r("Clear(0)"), q(0, "c")], vec![q(1, "p"), q(1, "c")]]),
        sc("session_rule_and_persistent_rule_race", &["WIns(1, 2)", "Fact(1, 2, 1)"], vec![vec![r("Rule(0, 0)"), q(0, "p")], vec![q(1, "p")], vec![r("WRule(0)"), q(2, "p")]]),
        sc("request_local_fact_among_sessions", &["WRule(0)", "WIns(3, 3)", "Fact(0, 1, 2)"], vec![vec![q(0, "p")], vec![r("Local(2, 1)")], vec![r("WIns(1, 2)")]]),
        sc("retract_while_other_session_queries", &["WRule(0)", "Fact(0, 1, 2)", "Fact(1, 1, 2)"], vec![vec![r("Retract(0, 1, 2)"), q(0, "e")], vec![q(1, "e"), q(1, "p")]]),
    ]
}

#[derive(Clone, Debug)]
struct Done {
    tid: usize,
    k: usize,
    call: usize,
    ret: usize,
    /// Some(answer) for queries and Local requests; None for plain requests; Err text for failures
    res: Result<Option<BTreeSet<Vec<i64>>>, String>,
}

pub struct OneRun {
    pub points: Vec<Point>,
    pub violations: Vec<(String, String)>,
}

fn who_of(w: usize) -> Option<usize> {
    if w < 2 {
        Some(w)
    } else {
        None
    }
}

/// is there a total order of the completed operations, consistent with program order and real time, under which
/// every recorded answer is what the model gives at that point and `final_ok` accepts the end state?
fn linearizable(sc: &Scenario, start: &Model, done: &[Done], final_ok: &dyn Fn(&Model) -> bool) -> bool {
    fn rec(sc: &Scenario, done: &[Done], used: &mut Vec<bool>, m: &Model, placed: usize, final_ok: &dyn Fn(&Model) -> bool) -> bool {
        if placed == done.len() {
            return final_ok(m);
        }
        for i in 0..done.len() {
            if used[i] {
                continue;
            }
            let d = &done[i];
            // program order and real time: nothing unplaced may have returned before d was called
            if (0..done.len()).any(|j| !used[j] && j != i && done[j].ret < d.call) {
                continue;
            }
            if (0..done.len()).any(|j| !used[j] && j != i && done[j].tid == d.tid && done[j].k < d.k) {
                continue;
            }
            let mut m2 = m.clone();
            let ok = match (&sc.threads[d.tid][d.k], &d.res) {
                (TOp::Query(w, qi), Ok(Some(ans))) => {
                    let want = m.expected(who_of(*w), &[], false, false).get(QUERIES[*qi].0).cloned().unwrap_or_default();
                    *ans == want
                }
                (TOp::Query(w, qi), Err(_)) => m.expected(who_of(*w), &[], false, false).get(QUERIES[*qi].0).map_or(true, |r| r.is_empty()),
                (TOp::Req(s), res) => {
                    let o = op(s);
                    let ok = match (&o, res) {
                        (Op::Local(a, b), Ok(Some(ans))) => *ans == m.expected(None, &[(*a, *b)], false, false).get("p").cloned().unwrap_or_default(),
                        (Op::Local(..), Err(_)) => m.expected(None, &[], false, false).get("p").map_or(true, |r| r.is_empty()),
                        (_, Ok(_)) => true,
                        (_, Err(_)) => false,
                    };
                    m2.apply(&o);
                    ok
                }
                _ => false,
            };
            if !ok {
                continue;
            }
            used[i] = true;
            if rec(sc, done, used, &m2, placed + 1, final_ok) {
                used[i] = false;
                return true;
            }
            used[i] = false;
        }
        false
    }
    rec(sc, done, &mut vec![false; done.len()], start, 0, final_ok)
}

pub fn run_schedule(sc: &Scenario, prefix: &[usize]) -> Result<OneRun, ExecError> {
    fresh_thread(|| run_schedule_inner(sc, prefix))
}

fn run_schedule_inner(sc: &Scenario, prefix: &[usize]) -> Result<OneRun, ExecError> {
    let sut = Arc::new(Sut::new(0));
    let mut start = Model::default();
    for s in &sc.setup {
        let o = op(s);
        sut.apply(&o).unwrap_or_else(|e| panic!("scenario {} setup {s}: {e}", sc.name));
        start.apply(&o);
    }
    let clock = Arc::new(Mutex::new(0usize));
    let done: Arc<Mutex<Vec<Done>>> = Arc::new(Mutex::new(vec![]));
    let mut bodies: Vec<Body> = vec![];
    for (tid, ops) in sc.threads.iter().enumerate() {
        let (sut, ops, clock, done) = (sut.clone(), ops.clone(), clock.clone(), done.clone());
        bodies.push(Box::new(move || {
            for (k, o) in ops.iter().enumerate() {
                let call = {
                    let mut c = clock.lock().unwrap();
                    *c += 1;
                    *c
                };
                let res = match o {
                    TOp::Req(s) => sut.apply(&op(s)),
                    TOp::Query(w, qi) => sut.observe(who_of(*w), QUERIES[*qi].1).map(Some),
                };
                let ret = {
                    let mut c = clock.lock().unwrap();
                    *c += 1;
                    *c
                };
                done.lock().unwrap().push(Done { tid, k, call, ret, res });
            }
        }));
    }
    let points = execute(bodies, prefix, &mut |_| {})?;
    let all = done.lock().unwrap().clone();
    let sched = points.iter().map(|p| format!("{}@{}", p.chosen, p.site)).collect::<Vec<_>>().join(" -> ");
    let describe = format!(
        "scenario {} setup {:?} threads [{}] observed [{}]",
        sc.name,
        sc.setup,
        sc.threads.iter().map(|t| format!("{t:?}")).collect::<Vec<_>>().join(" || "),
        all.iter().map(|d| format!("{}#{}={:?}", d.tid, d.k, d.res)).collect::<Vec<_>>().join(", ")
    );
    let mut violations = vec![];
    let obs = observe_final(&sut);
    let final_ok = |m: &Model| compare(&obs, m).is_empty();
    if !linearizable(sc, &start, &all, &final_ok) {
        let answers_alone = linearizable(sc, &start, &all, &|_| true);
        let class = if answers_alone { "final_state_not_explained_by_any_serial_order" } else { "answers_not_explained_by_any_serial_order" };
        violations.push((class.to_string(), format!("{describe}; schedule {sched}")));
    }
    Ok(OneRun { points, violations })
}

/// `hist_states` / `hist_transitions`: what the request-level leg covered (added to this leg's counts in the evidence).
pub fn interleavings(run: &Run, hist_states: u64, hist_transitions: u64) {
    let scs = scenarios();
    let bound = if run.quick() { 1 } else { 2 };
    let deadline = run.start + Duration::from_secs_f64(run.budget_s);
    let totals = Mutex::new((0u64, 0u64, usize::MAX, 0u64));
    run.par_for(scs.len(), threads().min(scs.len()), |i, l| {
        let sc = &scs[i];
        let mut run_one = |prefix: &[usize], _b: usize| -> Result<Vec<Point>, ExecError> {
            let r = run_schedule(sc, prefix)?;
            l.eval();
            if r.points.windows(2).any(|w| w[0].chosen != w[1].chosen) {
                l.nontrivial(fnv(format!("il{i}{:?}", r.points.iter().map(|p| p.chosen).collect::<Vec<_>>()).as_bytes()));
            }
            for (c, d) in r.violations {
                let choices: Vec<usize> = r.points.iter().map(|p| p.enabled.iter().position(|x| *x == p.chosen).unwrap()).collect();
                run.violation(&format!("interleaving:{}:{c}", sc.name), json!({"leg": "interleavings", "scenario": sc, "schedule": choices, "sites": r.points.iter().map(|p| format!("{}@{}", p.chosen, p.site)).collect::<Vec<_>>()}), d);
            }
            Ok(r.points)
        };
        match explore(bound, deadline, &mut run_one) {
            Ok(st) => {
                if st.deadlocks > 0 {
                    run.violation(&format!("interleaving:{}:deadlock", sc.name), json!({"leg": "interleavings", "scenario": sc}), format!("{} schedules of scenario {} end with no enabled participant", st.deadlocks, sc.name));
                }
                if st.capped {
                    run.capped.store(true, std::sync::atomic::Ordering::Relaxed);
                }
                if run.want_sample() {
                    run.sample(json!({"interleaving_scenario": sc, "schedules": st.schedules, "max_preemptions_completed": st.max_preemptions_completed}));
                }
                let mut t = totals.lock().unwrap();
                t.0 += st.schedules;
                t.1 += st.steps;
                t.2 = t.2.min(st.max_preemptions_completed);
                t.3 += st.deadlocks;
            }
            Err(e) => run.machinery_error(format!("interleaving scenario {}: {e:?}", sc.name)),
        }
    });
    let t = totals.lock().unwrap();
    run.put("interleavings", json!({"scenarios": scs.len(), "schedules": t.0, "scheduling_points_visited": t.1, "preemption_bound": bound, "preemption_bound_completed_in_every_scenario": if t.2 == usize::MAX { 0 } else { t.2 }, "deadlocks": t.3,
        "rule": "six scenarios of 2-3 threads (each 1-2 requests: a session adding a fact / rule, clearing, retracting or querying; the writer inserting, deleting, registering a rule; a session-less request with a local fact) on one real Handler; ALL schedules with at most B preemptions at the scheduling points of SessionManager (every session read/write lock), the session-query slow path (after the session state is read, after the snapshot is taken) and the storage engine; oracle: brute-force linearizability of the recorded answers plus the state every observer sees afterwards"}));
    run.put("schedules", json!(t.0));
    // states = histories executed (each ends in a state that was judged) + scheduling points visited;
    // every history and every schedule is a trace executed on the real Handler
    run.put("states", json!(hist_states + t.1));
    run.put("transitions", json!(hist_transitions + t.1));
    run.put("traces_validated_against_impl", json!(hist_states + t.0));
}

pub fn replay(args: &Args, case: &serde_json::Value) -> i32 {
    let p = args.replay.as_ref().unwrap();
    let sc: Scenario = serde_json::from_value(case["scenario"].clone()).expect("scenario");
    let prefix: Vec<usize> = serde_json::from_value(case["schedule"].clone()).unwrap_or_default();
    let mut bad = false;
    for _ in 0..2 {
        match run_schedule(&sc, &prefix) {
            Ok(r) => {
                for (c, d) in &r.violations {
                    println!("class={c} {d}");
                }
                bad |= !r.violations.is_empty();
            }
            Err(e) => {
                println!("execution error: {e:?}");
                bad |= matches!(e, ExecError::Deadlock { .. });
            }
        }
    }
    if bad {
        println!("VIOLATION property=C10 replay={}", p.display());
    }
    bad as i32
}
