//! C15 — concurrent writes are serializable and durable (E4 over the real FilePersist, crash image at every step).

use crate::common::*;
use crate::e4::*;
use inputlayer::storage::persist::{FilePersist, PersistBackend, PersistConfig, Update};
use inputlayer::{DurabilityMode, Tuple, Value};
use serde_json::json;
use std::collections::{BTreeMap, BTreeSet};
use std::path::{Path, PathBuf};
use std::sync::{Arc, Mutex};
use std::time::{Duration, Instant};

#[derive(Clone, Copy, Debug, PartialEq, Eq, Hash, PartialOrd, Ord, serde::Serialize, serde::Deserialize)]
pub enum POp {
    /// append one update (+1) of tuple `t` with logical time `time` to shard s / t
    Append { shard: u8, tuple: u8, time: u64 },
    Flush(u8),
    Compact(u8),
    DeleteShard(u8),
}
const SHARDS: [&str; 2] = ["k:s", "k:t"];

fn tup(t: u8) -> Tuple {
    Tuple::new(vec![Value::Int64(t as i64), Value::Int64(100 + t as i64)])
}
fn pop_name(o: POp) -> String {
    match o {
        POp::Append { shard, tuple, time } => format!("append({}, +t{tuple}@{time})", SHARDS[shard as usize]),
        POp::Flush(s) => format!("flush({})", SHARDS[s as usize]),
        POp::Compact(s) => format!("compact({})", SHARDS[s as usize]),
        POp::DeleteShard(s) => format!("delete_shard({})", SHARDS[s as usize]),
    }
}

#[derive(Clone, Debug, serde::Serialize, serde::Deserialize)]
pub struct Scenario {
    pub name: String,
    pub buffer_size: usize,
    /// ops applied sequentially before the threads start (warm-up state)
    pub setup: Vec<POp>,
    pub threads: Vec<Vec<POp>>,
}

#[derive(Clone, Debug)]
enum Ev {
    Call(usize, usize),
    Ret(usize, usize, bool),
}

fn cfg(path: &Path, buffer: usize) -> PersistConfig {
    PersistConfig { path: path.to_path_buf(), buffer_size: buffer, durability_mode: DurabilityMode::Immediate, max_wal_size_bytes: 0 }
}

fn apply(p: &FilePersist, o: POp) -> bool {
    match o {
        POp::Append { shard, tuple, time } => p.append(SHARDS[shard as usize], &[Update::insert(tup(tuple), time)]).is_ok(),
        POp::Flush(s) => p.flush(SHARDS[s as usize]).is_ok(),
        POp::Compact(s) => p.compact(SHARDS[s as usize], 0).is_ok(),
        POp::DeleteShard(s) => p.delete_shard(SHARDS[s as usize]).is_ok(),
    }
}

/// multiplicity of every (shard, tuple) served by `read`
fn contents(p: &FilePersist) -> Result<BTreeMap<(u8, i64), i64>, String> {
    let mut m = BTreeMap::new();
    let shards = p.list_shards().map_err(|e| e.to_string())?;
    for (si, s) in SHARDS.iter().enumerate() {
        if !shards.iter().any(|x| x == s) {
            continue;
        }
        for u in p.read(s, 0).map_err(|e| format!("read({s}): {e}"))? {
            let t = match u.data.get(0) {
                Some(Value::Int64(i)) => *i,
                other => return Err(format!("foreign tuple {other:?}")),
            };
            *m.entry((si as u8, t)).or_insert(0) += u.diff;
        }
    }
    m.retain(|_, v| *v != 0);
    Ok(m)
}

fn copy_tree(from: &Path) -> BTreeMap<String, Vec<u8>> {
    fn rec(base: &Path, dir: &Path, out: &mut BTreeMap<String, Vec<u8>>) {
        if let Ok(rd) = std::fs::read_dir(dir) {
            for e in rd.flatten() {
                let p = e.path();
                if p.is_dir() {
                    rec(base, &p, out);
                } else if let Ok(b) = std::fs::read(&p) {
                    out.insert(p.strip_prefix(base).unwrap().to_string_lossy().to_string(), b);
                }
            }
        }
    }
    let mut out = BTreeMap::new();
    rec(from, from, &mut out);
    out
}
fn restore_tree(img: &BTreeMap<String, Vec<u8>>, old_root: &str, to: &Path) {
    let new_s = to.to_str().unwrap();
    for (rel, c) in img {
        let p = to.join(rel);
        if let Some(parent) = p.parent() {
            let _ = std::fs::create_dir_all(parent);
        }
        if rel.ends_with(".json") {
            let t = String::from_utf8_lossy(c).replace(old_root, new_s);
            let _ = std::fs::write(&p, t.as_bytes());
        } else {
            let _ = std::fs::write(&p, c);
        }
    }
}

pub struct OneRun {
    pub points: Vec<Point>,
    pub violations: Vec<(String, String)>,
    pub crash_images: u64,
    pub outcome: u64,
}

/// Execute one schedule of a scenario and check it. `crash_leg`: recover a copy of the directory taken at every step.
pub fn run_schedule(sc: &Scenario, prefix: &[usize], crash_leg: bool) -> Result<OneRun, ExecError> {
    fresh_thread(|| run_schedule_inner(sc, prefix, crash_leg))
}

fn run_schedule_inner(sc: &Scenario, prefix: &[usize], crash_leg: bool) -> Result<OneRun, ExecError> {
    let scratch = Scratch::new("c15");
    let root: PathBuf = scratch.path().to_path_buf();
    let persist = Arc::new(FilePersist::new(cfg(&root, sc.buffer_size)).expect("persist opens"));
    let mut setup_appends: Vec<POp> = vec![];
    for o in &sc.setup {
        if apply(&persist, *o) {
            if matches!(o, POp::Append { .. }) {
                setup_appends.push(*o);
            }
        }
    }
    let events: Arc<Mutex<Vec<Ev>>> = Arc::new(Mutex::new(vec![]));
    let mut bodies: Vec<Body> = vec![];
    for (tid, ops) in sc.threads.iter().enumerate() {
        let (p, ev, ops) = (persist.clone(), events.clone(), ops.clone());
        bodies.push(Box::new(move || {
            for (k, o) in ops.iter().enumerate() {
                ev.lock().unwrap().push(Ev::Call(tid, k));
                let ok = apply(&p, *o);
                ev.lock().unwrap().push(Ev::Ret(tid, k, ok));
            }
        }));
    }
    // crash snapshots: (directory image, appends acknowledged so far, appends in flight)
    let mut snaps: Vec<(BTreeMap<String, Vec<u8>>, BTreeSet<POp>, BTreeSet<POp>, usize)> = vec![];
    let status = |evs: &[Ev]| -> (BTreeSet<POp>, BTreeSet<POp>, BTreeSet<POp>) {
        // (acked appends, in-flight appends, acked delete_shards)
        let mut acked = BTreeSet::new();
        let mut inflight = BTreeSet::new();
        let mut deleted = BTreeSet::new();
        for e in evs {
            match e {
                Ev::Call(t, k) => {
                    if let POp::Append { .. } = sc.threads[*t][*k] {
                        inflight.insert(sc.threads[*t][*k]);
                    }
                }
                Ev::Ret(t, k, ok) => {
                    let o = sc.threads[*t][*k];
                    inflight.remove(&o);
                    if *ok {
                        match o {
                            POp::Append { .. } => {
                                acked.insert(o);
                            }
                            POp::DeleteShard(_) => {
                                deleted.insert(o);
                            }
                            _ => {}
                        }
                    }
                }
            }
        }
        (acked, inflight, deleted)
    };
    let has_delete = sc.threads.iter().flatten().any(|o| matches!(o, POp::DeleteShard(_)));
    let points = {
        let ev2 = events.clone();
        let root2 = root.clone();
        let mut on_step = |step: usize| {
            if crash_leg {
                let evs = ev2.lock().unwrap().clone();
                let (acked, inflight, _) = status(&evs);
                snaps.push((copy_tree(&root2), acked, inflight, step));
            }
        };
        execute(bodies, prefix, &mut on_step)?
    };
    let evs = events.lock().unwrap().clone();
    let (acked, _, deleted) = status(&evs);
    let mut violations = vec![];
    let sched = || points.iter().map(|p| format!("{}@{}", p.chosen, p.site)).collect::<Vec<_>>().join(" -> ");
    let describe = |sc: &Scenario| format!("scenario {} (buffer_size {}), setup [{}], threads [{}]", sc.name, sc.buffer_size, sc.setup.iter().map(|o| pop_name(*o)).collect::<Vec<_>>().join("; "), sc.threads.iter().map(|t| t.iter().map(|o| pop_name(*o)).collect::<Vec<_>>().join("; ")).collect::<Vec<_>>().join(" || "));
    // expected multiplicities: every acknowledged append exactly once (shards with an acknowledged delete are exempt)
    let expect_of = |acked: &BTreeSet<POp>| -> BTreeMap<(u8, i64), i64> {
        let mut m = BTreeMap::new();
        for o in setup_appends.iter().chain(acked.iter()) {
            if let POp::Append { shard, tuple, .. } = o {
                *m.entry((*shard, *tuple as i64)).or_insert(0) += 1;
            }
        }
        m
    };
    let check = |got: &BTreeMap<(u8, i64), i64>, acked: &BTreeSet<POp>, inflight: &BTreeSet<POp>, deleted_shards: &BTreeSet<u8>, what: &str| -> Option<(String, String)> {
        let want = expect_of(acked);
        let mut maybe: BTreeMap<(u8, i64), i64> = BTreeMap::new();
        for o in inflight {
            if let POp::Append { shard, tuple, .. } = o {
                *maybe.entry((*shard, *tuple as i64)).or_insert(0) += 1;
            }
        }
        let keys: BTreeSet<(u8, i64)> = got.keys().chain(want.keys()).chain(maybe.keys()).cloned().collect();
        for k in keys {
            if deleted_shards.contains(&k.0) {
                continue;
            }
            let g = got.get(&k).copied().unwrap_or(0);
            let lo = want.get(&k).copied().unwrap_or(0);
            let hi = lo + maybe.get(&k).copied().unwrap_or(0);
            if g < lo {
                return Some((format!("{what}:acknowledged_update_lost"), format!("tuple t{} of shard {} has multiplicity {g}, {lo} acknowledged appends", k.1, SHARDS[k.0 as usize])));
            }
            if g > hi {
                return Some((format!("{what}:update_applied_more_than_once"), format!("tuple t{} of shard {} has multiplicity {g}, at most {hi} appends were issued", k.1, SHARDS[k.0 as usize])));
            }
        }
        None
    };
    let shards_with_delete: BTreeSet<u8> = if has_delete { sc.threads.iter().flatten().filter_map(|o| if let POp::DeleteShard(s) = o { Some(*s) } else { None }).collect() } else { BTreeSet::new() };
    let _ = deleted;
    // (a) final live state
    match contents(&persist) {
        Err(e) => violations.push(("live:read_failed".to_string(), e)),
        Ok(got) => {
            if let Some((c, d)) = check(&got, &acked, &BTreeSet::new(), &shards_with_delete, "live") {
                violations.push((c, format!("{}; schedule {}: final live state: {d}", describe(sc), sched())));
            }
        }
    }
    // (b) clean restart of the final state
    drop(persist);
    match FilePersist::new(cfg(&root, sc.buffer_size)) {
        Err(e) => violations.push(("restart:open_failed".into(), format!("{}; schedule {}: {e}", describe(sc), sched()))),
        Ok(p2) => match contents(&p2) {
            Err(e) => violations.push(("restart:read_failed".into(), e)),
            Ok(got) => {
                if let Some((c, d)) = check(&got, &acked, &BTreeSet::new(), &shards_with_delete, "restart") {
                    violations.push((c, format!("{}; schedule {}: state after restart: {d}", describe(sc), sched())));
                }
            }
        },
    }
    // (c) crash image at every step
    let mut crash_images = 0u64;
    if crash_leg {
        let old_root = root.to_str().unwrap().to_string();
        let mut seen: BTreeSet<u64> = BTreeSet::new();
        for (img, acked_then, inflight_then, step) in &snaps {
            let key = fnv(format!("{img:?}{acked_then:?}{inflight_then:?}").as_bytes());
            if !seen.insert(key) {
                continue;
            }
            crash_images += 1;
            let sc2 = Scratch::new("c15img");
            restore_tree(img, &old_root, sc2.path());
            match FilePersist::new(cfg(sc2.path(), sc.buffer_size)) {
                Err(e) => violations.push(("crash:recovery_failed".into(), format!("{}; schedule {}: crash before step {step}: {e}", describe(sc), sched()))),
                Ok(p3) => match contents(&p3) {
                    Err(e) => violations.push(("crash:read_failed".into(), format!("{}; schedule {}: crash before step {step}: {e}", describe(sc), sched()))),
                    Ok(got) => {
                        if let Some((c, d)) = check(&got, acked_then, inflight_then, &shards_with_delete, "crash") {
                            violations.push((c, format!("{}; schedule {}: crash before step {step} (everything written so far durable): {d}", describe(sc), sched())));
                        }
                    }
                },
            }
        }
    }
    let outcome = fnv(format!("{:?}", points.iter().map(|p| p.chosen).collect::<Vec<_>>()).as_bytes());
    Ok(OneRun { points, violations, crash_images, outcome })
}

pub fn scenarios(quick: bool) -> Vec<Scenario> {
    let ap = |shard: u8, tuple: u8, time: u64| POp::Append { shard, tuple, time };
    let mut v = vec![];
    let buffers: Vec<usize> = if quick { vec![2, 10000] } else { vec![1, 2, 10000] };
    for b in &buffers {
        // append || flush on the same shard with one buffered update (the window named in the property)
        v.push(Scenario { name: "append_vs_flush".into(), buffer_size: *b, setup: vec![ap(0, 1, 1)], threads: vec![vec![ap(0, 2, 2)], vec![POp::Flush(0)]] });
        // logical times are drawn before the append: a writer holding an older time may reach the log after a newer one is buffered
        v.push(Scenario { name: "append_with_older_time_vs_flush".into(), buffer_size: *b, setup: vec![ap(0, 1, 3)], threads: vec![vec![ap(0, 2, 2)], vec![POp::Flush(0)]] });
        v.push(Scenario { name: "append_vs_append_same_shard".into(), buffer_size: *b, setup: vec![], threads: vec![vec![ap(0, 1, 1)], vec![ap(0, 2, 2)]] });
        v.push(Scenario { name: "append_vs_append_other_shard".into(), buffer_size: *b, setup: vec![ap(1, 3, 1)], threads: vec![vec![ap(0, 1, 2)], vec![ap(1, 2, 3)]] });
        v.push(Scenario { name: "append_vs_compact".into(), buffer_size: *b, setup: vec![ap(0, 1, 1), POp::Flush(0), ap(0, 3, 2)], threads: vec![vec![ap(0, 2, 3)], vec![POp::Compact(0)]] });
        v.push(Scenario { name: "append_then_flush_vs_append".into(), buffer_size: *b, setup: vec![], threads: vec![vec![ap(0, 1, 1), POp::Flush(0)], vec![ap(0, 2, 2)]] });
        v.push(Scenario { name: "append_other_shard_vs_flush".into(), buffer_size: *b, setup: vec![ap(0, 1, 1), ap(1, 3, 2)], threads: vec![vec![ap(1, 2, 3)], vec![POp::Flush(0)]] });
        v.push(Scenario { name: "flush_vs_flush".into(), buffer_size: *b, setup: vec![ap(0, 1, 1), ap(1, 2, 2)], threads: vec![vec![POp::Flush(0)], vec![POp::Flush(1)]] });
        v.push(Scenario { name: "append_vs_delete_other_shard".into(), buffer_size: *b, setup: vec![ap(1, 3, 1), ap(0, 1, 2)], threads: vec![vec![ap(0, 2, 3)], vec![POp::DeleteShard(1)]] });
        if !quick {
            v.push(Scenario { name: "three_threads_append_append_flush".into(), buffer_size: *b, setup: vec![ap(0, 1, 1)], threads: vec![vec![ap(0, 2, 2)], vec![ap(0, 3, 3)], vec![POp::Flush(0)]] });
            v.push(Scenario { name: "three_threads_append_flush_compact".into(), buffer_size: *b, setup: vec![ap(0, 1, 1), POp::Flush(0), ap(0, 4, 2)], threads: vec![vec![ap(0, 2, 3)], vec![POp::Flush(0)], vec![POp::Compact(0)]] });
            v.push(Scenario { name: "two_appends_each".into(), buffer_size: *b, setup: vec![], threads: vec![vec![ap(0, 1, 1), ap(0, 2, 2)], vec![ap(0, 3, 3), ap(1, 4, 4)]] });
        }
    }
    v
}

pub fn c15(args: &Args) -> i32 {
    quiet_panics();
    if let Some(p) = &args.replay {
        let j = read_replay(p);
        if j["case"]["scenario"]["prop"].is_string() {
            return crate::e4_se::replay(args, "C15");
        }
        let sc: Scenario = serde_json::from_value(j["case"]["scenario"].clone()).expect("scenario");
        let prefix: Vec<usize> = serde_json::from_value(j["case"]["schedule"].clone()).expect("schedule");
        let mut bad = false;
        for _ in 0..2 {
            match run_schedule(&sc, &prefix, true) {
                Ok(r) => {
                    for (c, d) in &r.violations {
                        println!("class={c} {d}");
                    }
                    bad |= !r.violations.is_empty();
                }
                Err(e) => {
                    println!("execution error: {e:?}");
                    bad |= matches!(e, ExecError::Deadlock { .. });
                }
            }
        }
        if bad {
            println!("VIOLATION property=C15 replay={}", p.display());
        }
        return bad as i32;
    }
    let run = Run::new(args, "model_checking", 110.0, 1500.0);
    let scs = scenarios(run.quick());
    let bound = if run.quick() { 2 } else { 3 };
    run.set_rule("interleavings of 2-3 real threads on one real FilePersist (immediate durability) at the cfg-guarded scheduling points of the persist layer (every lock acquisition of append / flush / compact / read / delete_shard and the points between the three steps of flush and compact): for each scenario (append||flush with a buffered update, append||append same/other shard, append||compact, append;flush||append, flush||flush, append||delete_shard, 3-thread mixes; buffer_size 1/2/10000) ALL schedules with at most B preemptions (iterative context bounding 0,1,..,B). Oracle per schedule: no deadlock; the final served multiplicity of every tuple = number of acknowledged appends (each update applied exactly once), the same after a clean restart, and for the directory copied at EVERY scheduling step (all completed writes durable) recovery yields every append acknowledged before that step exactly once and in-flight ones at most once. non-trivial = schedules with at least one context switch between unfinished threads; states = scheduling points visited");
    run.assume("scheduling is sequentially consistent at the listed hook sites; code between two sites runs atomically; crash images assume every completed write is durable (exact for immediate durability)");
    run.put("scenarios", json!(scs.len()));
    run.put("preemption_bound", json!(bound));
    let deadline = run.start + Duration::from_secs_f64(run.budget_s);
    let totals = Mutex::new((0u64, 0u64, 0u64, 0u64, usize::MAX)); // schedules, steps, crash images, deadlocks, min completed bound
    let done = run.par_for(scs.len(), threads().min(16), |i, l| {
        let sc = &scs[i];
        let mut crash_imgs = 0u64;
        let mut run_one = |prefix: &[usize], _bound: usize| -> Result<Vec<Point>, ExecError> {
            let r = run_schedule(sc, prefix, true)?;
            l.eval();
            crash_imgs += r.crash_images;
            if r.points.windows(2).any(|w| w[0].chosen != w[1].chosen) {
                l.nontrivial(fnv(format!("{i}{:?}", r.points.iter().map(|p| p.chosen).collect::<Vec<_>>()).as_bytes()));
            }
            l.outcome(r.outcome % 1009);
            for (c, d) in r.violations {
                let choices: Vec<usize> = r.points.iter().map(|p| p.enabled.iter().position(|x| *x == p.chosen).unwrap()).collect();
                run.violation(&format!("{}:{c}", sc.name), json!({"scenario": sc, "schedule": choices, "sites": r.points.iter().map(|p| format!("{}@{}", p.chosen, p.site)).collect::<Vec<_>>()}), d);
            }
            Ok(r.points)
        };
        match explore(bound, deadline, &mut run_one) {
            Ok(st) => {
                if st.deadlocks > 0 {
                    run.violation(&format!("{}:deadlock", sc.name), json!({"scenario": sc}), format!("{} schedules of scenario {} end with no enabled participant", st.deadlocks, sc.name));
                }
                if st.capped {
                    run.capped.store(true, std::sync::atomic::Ordering::Relaxed);
                }
                if run.want_sample() {
                    run.sample(json!({"scenario": sc, "schedules": st.schedules, "max_preemptions_completed": st.max_preemptions_completed}));
                }
                let mut t = totals.lock().unwrap();
                t.0 += st.schedules;
                t.1 += st.steps;
                t.2 += crash_imgs;
                t.3 += st.deadlocks;
                t.4 = t.4.min(st.max_preemptions_completed);
            }
            Err(e) => run.machinery_error(format!("scenario {}: {e:?}", sc.name)),
        }
    });
    // storage-engine scenarios (insert || save_all / compact_all / delete / insert of the same tuple)
    let (s_sched, s_steps, s_imgs, s_dl, s_b) = crate::e4_se::explore_scenarios(&run, "C15", bound);
    let t = totals.lock().unwrap();
    run.put("scenarios_completed", json!(done));
    run.put("schedules", json!(t.0 + s_sched));
    run.put("states", json!(t.1 + s_steps));
    run.put("transitions", json!(t.1 + s_steps));
    run.put("traces_validated_against_impl", json!(t.0 + s_sched));
    run.put("crash_images_recovered", json!(t.2 + s_imgs));
    run.put("deadlocks", json!(t.3 + s_dl));
    run.put("storage_engine_schedules", json!(s_sched));
    run.put("preemption_bound_completed_in_every_scenario", json!((if t.4 == usize::MAX { 0 } else { t.4 }).min(s_b)));
    drop(t);
    let _ = Instant::now();
    run.finish()
}
