//! C19, E4 leg — a writer and one or two readers as real threads on one real StorageEngine with incremental
//! maintenance enabled; every schedule up to a preemption bound; every consistent read must be explained by one
//! serial order of the writes.
use crate::common::*;
use crate::e2_handler::Env;
use crate::e4::{execute, explore, fresh_thread, Body, ExecError, Point};
use inputlayer::{Tuple, Value};
use serde::{Deserialize, Serialize};
use serde_json::json;
use std::collections::BTreeSet;
use std::sync::{Arc, Mutex};

const KG: &str = "A";

#[derive(Clone, Debug, Serialize, Deserialize, PartialEq)]
pub enum IOp {
    Ins(Vec<u8>),
    Del(Vec<u8>),
    /// consistent read of relation r from the incremental engine (under the KG read lock, as every caller does)
    Read,
}

#[derive(Clone, Debug, Serialize, Deserialize)]
pub struct IScenario {
    pub name: String,
    pub setup: Vec<IOp>,
    pub threads: Vec<Vec<IOp>>,
}

fn itup(k: u8) -> Tuple {
    Tuple::new(vec![Value::Int64(k as i64 + 1), Value::Int64(k as i64 + 2)])
}

type Res = Result<Option<BTreeSet<u8>>, String>;

fn iexec(env: &Env, o: &IOp) -> Res {
    let s = env.handler.get_storage();
    match o {
        IOp::Ins(v) => s.insert_tuples_into(KG, "r", v.iter().map(|k| itup(*k)).collect()).map(|_| None).map_err(|e| e.to_string()),
        IOp::Del(v) => s.delete_tuples_from(KG, "r", v.iter().map(|k| itup(*k)).collect()).map(|_| None).map_err(|e| e.to_string()),
        IOp::Read => {
            let ts = s
                .with_kg_read(KG, |k| match k.incremental() {
                    None => Err("incremental engine missing".to_string()),
                    Some(dd) => dd.read_relation_consistent("r"),
                })
                .map_err(|e| e.to_string())?;
            let mut set = BTreeSet::new();
            for t in &ts {
                let k = (0..3u8).find(|k| crate::e5::same_tuple(t, &itup(*k))).ok_or_else(|| format!("foreign tuple {t}"))?;
                if !set.insert(k) {
                    return Err(format!("tuple {t} returned twice"));
                }
            }
            Ok(Some(set))
        }
    }
}

fn imodel(m: &BTreeSet<u8>, o: &IOp) -> BTreeSet<u8> {
    let mut m = m.clone();
    match o {
        IOp::Ins(v) => m.extend(v.iter().cloned()),
        IOp::Del(v) => {
            for k in v {
                m.remove(k);
            }
        }
        IOp::Read => {}
    }
    m
}

pub fn scenarios() -> Vec<IScenario> {
    let sc = |name: &str, setup: Vec<IOp>, threads: Vec<Vec<IOp>>| IScenario { name: name.into(), setup, threads };
    use IOp::*;
    vec![
        sc("insert_vs_read", vec![Ins(vec![0])], vec![vec![Ins(vec![1])], vec![Read]]),
        sc("batch_insert_then_delete_vs_reads", vec![Ins(vec![0])], vec![vec![Ins(vec![1, 2]), Del(vec![0])], vec![Read, Read]]),
        sc("two_readers_and_a_writer", vec![Ins(vec![0, 1])], vec![vec![Del(vec![1])], vec![Read], vec![Read]]),
        sc("duplicate_insert_and_absent_delete_vs_read", vec![Ins(vec![0])], vec![vec![Ins(vec![0, 0]), Del(vec![2])], vec![Read, Read]]),
        sc("two_readers_no_writer", vec![Ins(vec![0]), Del(vec![0]), Ins(vec![1])], vec![vec![Read, Read], vec![Read]]),
    ]
}

type Done = (usize, usize, usize, usize, Res);

fn linearizable(sc: &IScenario, all: &[Done], used: &mut Vec<bool>, m: &BTreeSet<u8>, placed: usize, fin: &Res) -> bool {
    if placed == all.len() {
        return matches!(fin, Ok(Some(f)) if f == m);
    }
    for i in 0..all.len() {
        if used[i] {
            continue;
        }
        let d = &all[i];
        if (0..all.len()).any(|j| !used[j] && j != i && (all[j].3 < d.2 || (all[j].0 == d.0 && all[j].1 < d.1))) {
            continue;
        }
        let o = &sc.threads[d.0][d.1];
        let ok = match (o, &d.4) {
            (IOp::Read, Ok(Some(got))) => got == m,
            (IOp::Read, _) => false,
            (_, Ok(_)) => true,
            (_, Err(_)) => false,
        };
        if !ok {
            continue;
        }
        let m2 = imodel(m, o);
        used[i] = true;
        let r = linearizable(sc, all, used, &m2, placed + 1, fin);
        used[i] = false;
        if r {
            return true;
        }
    }
    false
}

pub fn run_schedule(sc: &IScenario, prefix: &[usize]) -> Result<(Vec<Point>, Vec<(String, String)>), ExecError> {
    fresh_thread(|| {
        let env = Arc::new(Env::new("c19il"));
        env.create_kg(KG);
        env.handler.get_storage().with_kg_mut(KG, |k| k.enable_incremental().map_err(|e| e.to_string())).expect("enable incremental");
        let mut start: BTreeSet<u8> = BTreeSet::new();
        for o in &sc.setup {
            iexec(&env, o).unwrap_or_else(|e| panic!("scenario {} setup {o:?}: {e}", sc.name));
            start = imodel(&start, o);
        }
        let clock = Arc::new(Mutex::new(0usize));
        let done: Arc<Mutex<Vec<Done>>> = Arc::new(Mutex::new(vec![]));
        let mut bodies: Vec<Body> = vec![];
        for (tid, ops) in sc.threads.iter().enumerate() {
            let (env, ops, clock, done) = (env.clone(), ops.clone(), clock.clone(), done.clone());
            bodies.push(Box::new(move || {
                for (k, o) in ops.iter().enumerate() {
                    let call = {
                        let mut c = clock.lock().unwrap();
                        *c += 1;
                        *c
                    };
                    let res = iexec(&env, o);
                    let ret = {
                        let mut c = clock.lock().unwrap();
                        *c += 1;
                        *c
                    };
                    done.lock().unwrap().push((tid, k, call, ret, res));
                }
            }));
        }
        let points = execute(bodies, prefix, &mut |_| {})?;
        let all = done.lock().unwrap().clone();
        let final_read = iexec(&env, &IOp::Read);
        let mut v = vec![];
        if !linearizable(sc, &all, &mut vec![false; all.len()], &start, 0, &final_read) {
            let failed = all.iter().any(|d| d.4.is_err()) || final_read.is_err();
            let class = if failed { "consistent_read_or_write_failed" } else { "reads_not_explained_by_any_serial_order" };
            v.push((
                class.to_string(),
                format!("scenario {} setup {:?} threads {:?}: observed {:?}, final consistent read {final_read:?}; schedule {}", sc.name, sc.setup, sc.threads, all.iter().map(|d| format!("{}#{}={:?}", d.0, d.1, d.4)).collect::<Vec<_>>(), points.iter().map(|p| format!("{}@{}", p.chosen, p.site)).collect::<Vec<_>>().join(" -> ")),
            ));
        }
        Ok((points, v))
    })
}

/// `share` of the check's time budget goes to this leg (it runs before the sequential leg).
pub fn interleavings(run: &Run, share: f64) {
    let scs = scenarios();
    let bound = if run.quick() { 2 } else { 3 };
    let deadline = run.start + std::time::Duration::from_secs_f64(run.budget_s * share);
    let totals = Mutex::new((0u64, 0u64, usize::MAX));
    run.par_for(scs.len(), threads().min(scs.len()), |i, l| {
        let sc = &scs[i];
        let mut run_one = |prefix: &[usize], _b: usize| -> Result<Vec<Point>, ExecError> {
            let (points, v) = run_schedule(sc, prefix)?;
            l.eval();
            if points.windows(2).any(|w| w[0].chosen != w[1].chosen) {
                l.nontrivial(fnv(format!("c19il{i}{:?}", points.iter().map(|p| p.chosen).collect::<Vec<_>>()).as_bytes()));
            }
            for (c, d) in v {
                let choices: Vec<usize> = points.iter().map(|p| p.enabled.iter().position(|x| *x == p.chosen).unwrap()).collect();
                run.violation(&format!("interleaving:{}:{c}", sc.name), json!({"leg": "interleavings", "scenario": sc, "schedule": choices}), d);
            }
            Ok(points)
        };
        match explore(bound, deadline, &mut run_one) {
            Ok(st) => {
                if st.deadlocks > 0 {
                    run.violation(&format!("interleaving:{}:deadlock", sc.name), json!({"leg": "interleavings", "scenario": sc}), format!("{} schedules end with no enabled participant", st.deadlocks));
                }
                if st.capped {
                    run.capped.store(true, std::sync::atomic::Ordering::Relaxed);
                }
                let mut t = totals.lock().unwrap();
                t.0 += st.schedules;
                t.1 += st.steps;
                t.2 = t.2.min(st.max_preemptions_completed);
            }
            Err(e) => run.machinery_error(format!("C19 interleaving scenario {}: {e:?}", sc.name)),
        }
    });
    let t = totals.lock().unwrap();
    run.put(
        "interleavings",
        json!({"scenarios": scs.len(), "schedules": t.0, "scheduling_points_visited": t.1, "preemption_bound": bound, "preemption_bound_completed_in_every_scenario": if t.2 == usize::MAX { 0 } else { t.2 },
        "rule": "five scenarios: one writer thread (inserts incl. duplicates and a batch, deletes incl. an absent tuple) and one or two reader threads doing consistent reads of the incremental arrangement under the KG read lock, on one real StorageEngine with maintenance enabled; ALL schedules with at most B preemptions at the storage-engine, persist-layer and incremental-engine scheduling points (publish of the write time, command sends, the four steps of read_relation_consistent); oracle: every read and the final read are explained by one serial order of the writes"}),
    );
    run.put("schedules", json!(t.0));
}

pub fn replay(args: &Args, case: &serde_json::Value) -> i32 {
    let p = args.replay.as_ref().unwrap();
    let sc: IScenario = serde_json::from_value(case["scenario"].clone()).expect("scenario");
    let prefix: Vec<usize> = serde_json::from_value(case["schedule"].clone()).unwrap_or_default();
    let mut bad = false;
    for _ in 0..2 {
        match run_schedule(&sc, &prefix) {
            Ok((_, v)) => {
                for (c, d) in &v {
                    println!("class={c} {d}");
                }
                bad |= !v.is_empty();
            }
            Err(e) => {
                println!("execution error: {e:?}");
                bad |= matches!(e, ExecError::Deadlock { .. });
            }
        }
    }
    if bad {
        println!("VIOLATION property=C19 replay={}", p.display());
    }
    bad as i32
}
