//! E4 on the real StorageEngine: interleavings of inserts / deletes / KG create / drop / rule registration /
//! save / compact / snapshot queries at the storage-engine and persist-layer scheduling points.
//! Serves C17 (interleaving leg), C20, and the storage-engine scenarios of C15.
//!
//! Oracle: linearizability by brute force - there must be a total order of the completed operations,
//! consistent with real-time order (an operation that returned before another was called comes first), under
//! which a sequential reference model produces every observed result and the final served state; the state
//! after a clean restart must equal the final served state; and for the directory copied at every scheduling
//! step the recovered state must be explained by the operations completed before that step plus any subset
//! of the operations in flight.

use crate::common::*;
use crate::e2_store::mk_config;
use crate::e4::*;
use inputlayer::{DurabilityMode, StorageEngine, Tuple, Value};
use serde_json::json;
use std::collections::{BTreeMap, BTreeSet};
use std::path::Path;
use std::sync::{Arc, Mutex};
use std::time::Duration;

#[derive(Clone, Debug, PartialEq, Eq, Hash, PartialOrd, Ord, serde::Serialize, serde::Deserialize)]
pub enum SOp {
    Ins(u8, Vec<u8>),
    Del(u8, Vec<u8>),
    CreateKg(u8),
    DropKg(u8),
    /// register rule p(X, Y) <- r(X, Y)
    RegRule(u8),
    SaveAll,
    CompactAll,
    /// query relation r of the KG (observes the set of tuples, or an error)
    Query(u8),
    /// query derived relation p
    QueryP(u8),
}
const KGN: [&str; 2] = ["k", "j"];

fn tup(t: u8) -> Tuple {
    Tuple::new(vec![Value::Int64(t as i64), Value::Int64(100 + t as i64)])
}
pub fn sop_name(o: &SOp) -> String {
    match o {
        SOp::Ins(k, ts) => format!("{}: insert {ts:?}", KGN[*k as usize]),
        SOp::Del(k, ts) => format!("{}: delete {ts:?}", KGN[*k as usize]),
        SOp::CreateKg(k) => format!("create kg {}", KGN[*k as usize]),
        SOp::DropKg(k) => format!("drop kg {}", KGN[*k as usize]),
        SOp::RegRule(k) => format!("{}: +p(X,Y) <- r(X,Y)", KGN[*k as usize]),
        SOp::SaveAll => "save_all".into(),
        SOp::CompactAll => "compact_all".into(),
        SOp::Query(k) => format!("{}: ?r", KGN[*k as usize]),
        SOp::QueryP(k) => format!("{}: ?p", KGN[*k as usize]),
    }
}

/// observed result of an operation
#[derive(Clone, Debug, PartialEq, Eq, PartialOrd, Ord)]
pub enum Res {
    Ok,
    Err,
    Rows(BTreeSet<u8>),
}

#[derive(Clone, Debug, Default, PartialEq, Eq, PartialOrd, Ord)]
pub struct Model {
    /// kg -> (tuples of r, rule p registered)
    kgs: BTreeMap<u8, (BTreeSet<u8>, bool)>,
}

fn model_step(m: &Model, o: &SOp) -> (Model, Res) {
    let mut n = m.clone();
    let r = match o {
        SOp::Ins(k, ts) => match n.kgs.get_mut(k) {
            None => Res::Err,
            Some(kg) => {
                kg.0.extend(ts.iter().copied());
                Res::Ok
            }
        },
        SOp::Del(k, ts) => match n.kgs.get_mut(k) {
            None => Res::Err,
            Some(kg) => {
                for t in ts {
                    kg.0.remove(t);
                }
                Res::Ok
            }
        },
        SOp::CreateKg(k) => {
            if n.kgs.contains_key(k) {
                Res::Err
            } else {
                n.kgs.insert(*k, Default::default());
                Res::Ok
            }
        }
        SOp::DropKg(k) => {
            if n.kgs.remove(k).is_some() {
                Res::Ok
            } else {
                Res::Err
            }
        }
        SOp::RegRule(k) => match n.kgs.get_mut(k) {
            None => Res::Err,
            Some(kg) => {
                kg.1 = true;
                Res::Ok
            }
        },
        SOp::SaveAll | SOp::CompactAll => Res::Ok,
        SOp::Query(k) => match n.kgs.get(k) {
            None => Res::Err,
            Some(kg) => Res::Rows(kg.0.clone()),
        },
        SOp::QueryP(k) => match n.kgs.get(k) {
            None => Res::Err,
            Some(kg) if kg.1 => Res::Rows(kg.0.clone()),
            // p is not defined: the engine answers with an error or with no rows; both accepted (see accept())
            Some(_) => Res::Rows(BTreeSet::new()),
        },
    };
    (n, r)
}

/// does the observed result match the model's? (a query on an undefined derived relation may fail or be empty)
fn accept(o: &SOp, model: &Res, observed: &Res, m_before: &Model) -> bool {
    if let SOp::QueryP(k) = o {
        if let Some(kg) = m_before.kgs.get(k) {
            if !kg.1 {
                return matches!(observed, Res::Err) || *observed == Res::Rows(BTreeSet::new());
            }
        }
    }
    model == observed
}

fn exec(s: &StorageEngine, o: &SOp) -> Res {
    let rows = |r: Result<Vec<Tuple>, inputlayer::storage::StorageError>| -> Res {
        match r {
            Err(_) => Res::Err,
            Ok(ts) => {
                let mut set = BTreeSet::new();
                for t in ts {
                    match t.get(0) {
                        Some(Value::Int64(i)) => {
                            set.insert(*i as u8);
                        }
                        _ => return Res::Err,
                    }
                }
                Res::Rows(set)
            }
        }
    };
    let okerr = |b: bool| if b { Res::Ok } else { Res::Err };
    match o {
        SOp::Ins(k, ts) => okerr(s.insert_tuples_into(KGN[*k as usize], "r", ts.iter().map(|t| tup(*t)).collect()).is_ok()),
        SOp::Del(k, ts) => okerr(s.delete_tuples_from(KGN[*k as usize], "r", ts.iter().map(|t| tup(*t)).collect()).is_ok()),
        SOp::CreateKg(k) => okerr(s.create_knowledge_graph(KGN[*k as usize]).is_ok()),
        SOp::DropKg(k) => okerr(s.drop_knowledge_graph(KGN[*k as usize]).is_ok()),
        SOp::RegRule(k) => {
            let def = inputlayer::statement::parse_rule_definition("p(X, Y) <- r(X, Y)").expect("rule parses");
            okerr(s.register_rule_in(KGN[*k as usize], &def).is_ok())
        }
        SOp::SaveAll => okerr(s.save_all().is_ok()),
        SOp::CompactAll => okerr(s.compact_all().is_ok()),
        SOp::Query(k) => {
            let kg = KGN[*k as usize];
            // only the hooked query path is used (an un-hooked lock acquisition would block invisibly);
            // a relation that was never written does not exist: that is the empty set, not an error
            match s.execute_query_with_rules_tuples_on(kg, "vq(X, Y) <- r(X, Y)") {
                Err(inputlayer::storage::StorageError::KnowledgeGraphNotFound(_)) => Res::Err,
                Err(_) => Res::Rows(BTreeSet::new()),
                ok => rows(ok),
            }
        }
        SOp::QueryP(k) => rows(s.execute_query_with_rules_tuples_on(KGN[*k as usize], "vq(X, Y) <- p(X, Y)")),
    }
}

/// the state a store serves, in model form
fn observe(s: &StorageEngine) -> Result<Model, String> {
    let mut m = Model::default();
    for (i, name) in KGN.iter().enumerate() {
        if !s.list_knowledge_graphs().iter().any(|k| k == name) {
            continue;
        }
        let rows = match exec(s, &SOp::Query(i as u8)) {
            Res::Rows(r) => r,
            other => return Err(format!("cannot read relation r of {name}: {other:?}")),
        };
        let rule = s.list_rules_in(name).map(|r| r.iter().any(|x| x == "p")).unwrap_or(false);
        m.kgs.insert(i as u8, (rows, rule));
    }
    Ok(m)
}

#[derive(Clone, Debug, serde::Serialize, serde::Deserialize)]
pub struct Scenario {
    pub name: String,
    pub prop: String,
    pub buffer_size: usize,
    pub setup: Vec<SOp>,
    pub threads: Vec<Vec<SOp>>,
}

#[derive(Clone, Debug)]
struct Done {
    tid: usize,
    k: usize,
    call: usize,
    ret: usize,
    res: Res,
}

/// Is there a linearization of `must` (all included) and any subset of `may`, consistent with real-time order,
/// that reproduces every observed result (of `must` ops) and ends in a state accepted by `final_ok`?
fn linearizable(sc: &Scenario, start: &Model, must: &[Done], may: &[(usize, usize, usize)], final_ok: &dyn Fn(&Model) -> bool) -> bool {
    // items: (tid, k, call, ret(None for in-flight), observed)
    #[derive(Clone)]
    struct It {
        tid: usize,
        k: usize,
        call: usize,
        ret: Option<usize>,
        res: Option<Res>,
    }
    let musts: Vec<It> = must.iter().map(|d| It { tid: d.tid, k: d.k, call: d.call, ret: Some(d.ret), res: Some(d.res.clone()) }).collect();
    for mask in 0..(1u32 << may.len()) {
        let mut items = musts.clone();
        for (i, (tid, k, call)) in may.iter().enumerate() {
            if mask & (1 << i) != 0 {
                items.push(It { tid: *tid, k: *k, call: *call, ret: None, res: None });
            }
        }
        let n = items.len();
        // DFS over orders
        fn rec(sc: &Scenario, items: &[It], used: &mut Vec<bool>, m: &Model, placed: usize, n: usize, final_ok: &dyn Fn(&Model) -> bool) -> bool {
            if placed == n {
                return final_ok(m);
            }
            for i in 0..n {
                if used[i] {
                    continue;
                }
                // real-time order: every unplaced item that RETURNED before items[i] was CALLED must come first
                let blocked = (0..n).any(|j| j != i && !used[j] && items[j].ret.is_some_and(|r| r < items[i].call));
                // program order within a thread
                let blocked = blocked || (0..n).any(|j| j != i && !used[j] && items[j].tid == items[i].tid && items[j].k < items[i].k);
                if blocked {
                    continue;
                }
                let op = &sc.threads[items[i].tid][items[i].k];
                let (mut m2, r) = model_step(m, op);
                if let Some(obs) = &items[i].res {
                    if !accept(op, &r, obs, m) {
                        // an operation REFUSED while a drop of its KG is in flight (the engine keeps a tombstone for
                        // the duration of the drop: "is being dropped, cannot create") is a refusal without effect,
                        // whichever side of the drop it is ordered on; nothing the property speaks about depends on it
                        let kg_of = |o: &SOp| match o {
                            SOp::Ins(k, _) | SOp::Del(k, _) | SOp::CreateKg(k) | SOp::RegRule(k) | SOp::Query(k) | SOp::QueryP(k) | SOp::DropKg(k) => Some(*k),
                            _ => None,
                        };
                        let overlaps = |a: &It, b: &It| !(a.ret.is_some_and(|r| r < b.call) || b.ret.is_some_and(|r| r < a.call));
                        let refused_during_drop = *obs == Res::Err
                            && !matches!(op, SOp::DropKg(_))
                            && (0..n).any(|j| j != i && matches!(&sc.threads[items[j].tid][items[j].k], SOp::DropKg(k) if Some(*k) == kg_of(op)) && overlaps(&items[i], &items[j]));
                        if !refused_during_drop {
                            continue;
                        }
                        m2 = m.clone();
                    }
                }
                used[i] = true;
                if rec(sc, items, used, &m2, placed + 1, n, final_ok) {
                    used[i] = false;
                    return true;
                }
                used[i] = false;
            }
            false
        }
        if rec(sc, &items, &mut vec![false; n], start, 0, n, final_ok) {
            return true;
        }
    }
    false
}

pub struct OneRun {
    pub points: Vec<Point>,
    pub violations: Vec<(String, String)>,
    pub crash_images: u64,
}

fn copy_tree(from: &Path) -> BTreeMap<String, Vec<u8>> {
    fn rec(base: &Path, dir: &Path, out: &mut BTreeMap<String, Vec<u8>>) {
        if let Ok(rd) = std::fs::read_dir(dir) {
            for e in rd.flatten() {
                let p = e.path();
                if p.is_dir() {
                    rec(base, &p, out);
                    // keep empty directories too (a KG directory without files is state)
                    out.entry(format!("{}/", p.strip_prefix(base).unwrap().to_string_lossy())).or_default();
                } else if let Ok(b) = std::fs::read(&p) {
                    out.insert(p.strip_prefix(base).unwrap().to_string_lossy().to_string(), b);
                }
            }
        }
    }
    let mut out = BTreeMap::new();
    rec(from, from, &mut out);
    out
}
fn restore_tree(img: &BTreeMap<String, Vec<u8>>, old_root: &str, to: &Path) {
    let new_s = to.to_str().unwrap();
    for (rel, c) in img {
        let p = to.join(rel);
        if rel.ends_with('/') {
            let _ = std::fs::create_dir_all(&p);
            continue;
        }
        if let Some(parent) = p.parent() {
            let _ = std::fs::create_dir_all(parent);
        }
        if rel.ends_with(".json") {
            let t = String::from_utf8_lossy(c).replace(old_root, new_s);
            let _ = std::fs::write(&p, t.as_bytes());
        } else {
            let _ = std::fs::write(&p, c);
        }
    }
}

pub fn run_schedule(sc: &Scenario, prefix: &[usize], crash_leg: bool) -> Result<OneRun, ExecError> {
    fresh_thread(|| run_schedule_inner(sc, prefix, crash_leg))
}

fn run_schedule_inner(sc: &Scenario, prefix: &[usize], crash_leg: bool) -> Result<OneRun, ExecError> {
    let scratch = Scratch::new("e4se");
    let root = scratch.path().to_path_buf();
    let mut cfg = mk_config(&root, sc.buffer_size, DurabilityMode::Immediate, None);
    cfg.storage.auto_create_knowledge_graphs = false;
    let engine = Arc::new(StorageEngine::new(cfg.clone()).expect("engine opens"));
    let mut start = Model::default();
    for o in &sc.setup {
        let (m2, want) = model_step(&start, o);
        let got = exec(&engine, o);
        assert!(accept(o, &want, &got, &start), "scenario {} setup op {} behaves unexpectedly: {got:?}", sc.name, sop_name(o));
        start = m2;
    }
    // event counter: calls and returns get increasing stamps (only one participant runs at a time)
    let clock = Arc::new(Mutex::new(0usize));
    let calls: Arc<Mutex<Vec<(usize, usize, usize)>>> = Arc::new(Mutex::new(vec![])); // (tid, k, call stamp)
    let done: Arc<Mutex<Vec<Done>>> = Arc::new(Mutex::new(vec![]));
    let mut bodies: Vec<Body> = vec![];
    for (tid, ops) in sc.threads.iter().enumerate() {
        let (e, ops, clock, calls, done) = (engine.clone(), ops.clone(), clock.clone(), calls.clone(), done.clone());
        bodies.push(Box::new(move || {
            for (k, o) in ops.iter().enumerate() {
                let call = {
                    let mut c = clock.lock().unwrap();
                    *c += 1;
                    *c
                };
                calls.lock().unwrap().push((tid, k, call));
                let res = exec(&e, o);
                let ret = {
                    let mut c = clock.lock().unwrap();
                    *c += 1;
                    *c
                };
                done.lock().unwrap().push(Done { tid, k, call, ret, res });
            }
        }));
    }
    let mut snaps: Vec<(BTreeMap<String, Vec<u8>>, Vec<Done>, Vec<(usize, usize, usize)>, usize)> = vec![];
    let points = {
        let (calls2, done2, root2) = (calls.clone(), done.clone(), root.clone());
        let mut on_step = |step: usize| {
            if crash_leg {
                let d = done2.lock().unwrap().clone();
                let inflight: Vec<(usize, usize, usize)> = calls2.lock().unwrap().iter().filter(|(t, k, _)| !d.iter().any(|x| x.tid == *t && x.k == *k)).cloned().collect();
                snaps.push((copy_tree(&root2), d, inflight, step));
            }
        };
        execute(bodies, prefix, &mut on_step)?
    };
    let all_done = done.lock().unwrap().clone();
    let mut violations: Vec<(String, String)> = vec![];
    let sched = || points.iter().map(|p| format!("{}@{}", p.chosen, p.site)).collect::<Vec<_>>().join(" -> ");
    let describe = || {
        format!(
            "scenario {} (buffer_size {}), setup [{}], threads [{}], observed results [{}]",
            sc.name,
            sc.buffer_size,
            sc.setup.iter().map(sop_name).collect::<Vec<_>>().join("; "),
            sc.threads.iter().map(|t| t.iter().map(sop_name).collect::<Vec<_>>().join("; ")).collect::<Vec<_>>().join(" || "),
            all_done.iter().map(|d| format!("{}#{}={:?}", d.tid, d.k, d.res)).collect::<Vec<_>>().join(", ")
        )
    };
    // (a) linearizability incl. the final served state
    let live = observe(&engine);
    match &live {
        Err(e) => violations.push(("live:state_unreadable".into(), format!("{}; schedule {}: {e}", describe(), sched()))),
        Ok(live_m) => {
            if !linearizable(sc, &start, &all_done, &[], &|m| m == live_m) {
                let results_alone = linearizable(sc, &start, &all_done, &[], &|_| true);
                let class = if results_alone { "live:final_state_not_explained_by_any_serial_order" } else { "live:observed_results_not_linearizable" };
                violations.push((class.into(), format!("{}; schedule {}: final served state {live_m:?}", describe(), sched())));
            }
        }
    }
    // (b) clean restart reproduces the final served state
    drop(engine);
    match StorageEngine::new(cfg.clone()) {
        Err(e) => violations.push(("restart:open_failed".into(), format!("{}; schedule {}: {e}", describe(), sched()))),
        Ok(s2) => match (observe(&s2), &live) {
            (Ok(after), Ok(before)) if after != *before => {
                let reappeared = after.kgs.iter().any(|(k, v)| before.kgs.get(k).map_or(true, |b| !v.0.is_subset(&b.0)));
                let class = if reappeared { "restart:dropped_or_deleted_data_reappeared" } else { "restart:acknowledged_data_lost" };
                violations.push((class.into(), format!("{}; schedule {}: served {before:?} before the restart, {after:?} after", describe(), sched())));
            }
            (Err(e), _) => violations.push(("restart:state_unreadable".into(), format!("{}; schedule {}: {e}", describe(), sched()))),
            _ => {}
        },
    }
    // (c) crash image at every step
    let mut crash_images = 0u64;
    if crash_leg {
        let old_root = root.to_str().unwrap().to_string();
        let mut seen = BTreeSet::new();
        for (img, done_then, inflight, step) in &snaps {
            let key = fnv(format!("{img:?}{:?}{inflight:?}", done_then.iter().map(|d| (d.tid, d.k)).collect::<Vec<_>>()).as_bytes());
            if !seen.insert(key) {
                continue;
            }
            crash_images += 1;
            let sc2 = Scratch::new("e4seimg");
            restore_tree(img, &old_root, sc2.path());
            let mut cfg2 = mk_config(sc2.path(), sc.buffer_size, DurabilityMode::Immediate, None);
            cfg2.storage.auto_create_knowledge_graphs = false;
            match StorageEngine::new(cfg2) {
                Err(e) => violations.push(("crash:recovery_failed".into(), format!("{}; schedule {}: crash before step {step}: {e}", describe(), sched()))),
                Ok(s3) => match observe(&s3) {
                    Err(e) => violations.push(("crash:state_unreadable".into(), format!("{}; schedule {}: crash before step {step}: {e}", describe(), sched()))),
                    Ok(got) => {
                        // queries do not change state: ignore their observed values here by matching results only for completed ops
                        // a KG whose drop (or creation) is in flight and unacknowledged may be found half-way:
                        // C17 claims nothing about it before the acknowledgement (partial drops are C13's finding);
                        // every other KG must be explained exactly
                        let relaxed: BTreeSet<u8> = inflight.iter().filter_map(|(t, k, _)| match &sc.threads[*t][*k] { SOp::DropKg(g) | SOp::CreateKg(g) => Some(*g), _ => None }).collect();
                        let strip = |m: &Model| -> Model { Model { kgs: m.kgs.iter().filter(|(k, _)| !relaxed.contains(k)).map(|(k, v)| (*k, v.clone())).collect() } };
                        let got_s = strip(&got);
                        if !linearizable(sc, &start, done_then, inflight, &|m| strip(m) == got_s) {
                            violations.push(("crash:recovered_state_not_explained".into(), format!("{}; schedule {}: crash before step {step} (completed: {:?}, in flight: {:?}): recovered {got:?}", describe(), sched(), done_then.iter().map(|d| (d.tid, d.k)).collect::<Vec<_>>(), inflight.iter().map(|x| (x.0, x.1)).collect::<Vec<_>>())));
                        }
                    }
                },
            }
        }
    }
    Ok(OneRun { points, violations, crash_images })
}

pub fn scenarios(prop: &str, quick: bool) -> Vec<Scenario> {
    let mut v = vec![];
    let mk = |name: &str, prop: &str, buffer: usize, setup: Vec<SOp>, threads: Vec<Vec<SOp>>| Scenario { name: name.into(), prop: prop.into(), buffer_size: buffer, setup, threads };
    let buffers: Vec<usize> = if quick { vec![10000] } else { vec![1, 10000] };
    for b in buffers {
        match prop {
            "C17" => {
                v.push(mk("insert_vs_drop", "C17", b, vec![SOp::CreateKg(0), SOp::Ins(0, vec![1])], vec![vec![SOp::Ins(0, vec![2])], vec![SOp::DropKg(0)]]));
                v.push(mk("insert_vs_drop_then_create", "C17", b, vec![SOp::CreateKg(0), SOp::Ins(0, vec![1])], vec![vec![SOp::Ins(0, vec![2])], vec![SOp::DropKg(0), SOp::CreateKg(0)]]));
                v.push(mk("insert_vs_drop_other_kg", "C17", b, vec![SOp::CreateKg(0), SOp::CreateKg(1), SOp::Ins(1, vec![3])], vec![vec![SOp::Ins(0, vec![2])], vec![SOp::DropKg(1)]]));
                v.push(mk("create_vs_create", "C17", b, vec![], vec![vec![SOp::CreateKg(0), SOp::Ins(0, vec![1])], vec![SOp::CreateKg(0)]]));
                v.push(mk("drop_vs_query", "C17", b, vec![SOp::CreateKg(0), SOp::Ins(0, vec![1])], vec![vec![SOp::DropKg(0)], vec![SOp::Query(0)]]));
                if !quick {
                    v.push(mk("insert_vs_drop_vs_create", "C17", b, vec![SOp::CreateKg(0), SOp::Ins(0, vec![1])], vec![vec![SOp::Ins(0, vec![2])], vec![SOp::DropKg(0)], vec![SOp::CreateKg(0)]]));
                    v.push(mk("delete_vs_drop", "C17", b, vec![SOp::CreateKg(0), SOp::Ins(0, vec![1, 2])], vec![vec![SOp::Del(0, vec![1])], vec![SOp::DropKg(0), SOp::CreateKg(0)]]));
                }
            }
            "C20" => {
                v.push(mk("batch_insert_vs_reader", "C20", b, vec![SOp::CreateKg(0)], vec![vec![SOp::Ins(0, vec![1, 2]), SOp::Query(0)], vec![SOp::Query(0), SOp::Query(0)]]));
                v.push(mk("batch_delete_vs_reader", "C20", b, vec![SOp::CreateKg(0), SOp::Ins(0, vec![1, 2])], vec![vec![SOp::Del(0, vec![1, 2]), SOp::Query(0)], vec![SOp::Query(0), SOp::Query(0)]]));
                v.push(mk("rule_registration_vs_reader", "C20", b, vec![SOp::CreateKg(0), SOp::Ins(0, vec![1])], vec![vec![SOp::RegRule(0), SOp::QueryP(0)], vec![SOp::QueryP(0), SOp::Query(0)]]));
                v.push(mk("two_writers_one_reader", "C20", b, vec![SOp::CreateKg(0)], vec![vec![SOp::Ins(0, vec![1])], vec![SOp::Ins(0, vec![2])], vec![SOp::Query(0), SOp::Query(0)]]));
                v.push(mk("overlapping_batch_insert_vs_batch_delete", "C20", b, vec![SOp::CreateKg(0), SOp::Ins(0, vec![1])], vec![vec![SOp::Ins(0, vec![1, 2]), SOp::Query(0)], vec![SOp::Del(0, vec![1, 2])]]));
                v.push(mk("insert_then_delete_vs_reader", "C20", b, vec![SOp::CreateKg(0)], vec![vec![SOp::Ins(0, vec![1, 2]), SOp::Del(0, vec![1])], vec![SOp::Query(0), SOp::Query(0)]]));
                if !quick {
                    v.push(mk("writer_rule_reader", "C20", b, vec![SOp::CreateKg(0)], vec![vec![SOp::Ins(0, vec![1, 2])], vec![SOp::RegRule(0)], vec![SOp::QueryP(0), SOp::Query(0)]]));
                }
            }
            _ => {
                // C15 storage-engine scenarios
                v.push(mk("se_insert_vs_save_all", "C15", b, vec![SOp::CreateKg(0), SOp::Ins(0, vec![1])], vec![vec![SOp::Ins(0, vec![2])], vec![SOp::SaveAll]]));
                v.push(mk("se_insert_vs_compact_all", "C15", b, vec![SOp::CreateKg(0), SOp::Ins(0, vec![1]), SOp::SaveAll, SOp::Ins(0, vec![3])], vec![vec![SOp::Ins(0, vec![2])], vec![SOp::CompactAll]]));
                v.push(mk("se_insert_vs_delete_same_tuple", "C15", b, vec![SOp::CreateKg(0), SOp::Ins(0, vec![1])], vec![vec![SOp::Ins(0, vec![1, 2])], vec![SOp::Del(0, vec![1])]]));
                v.push(mk("se_batch_insert_vs_batch_delete_overlapping", "C15", b, vec![SOp::CreateKg(0), SOp::Ins(0, vec![1])], vec![vec![SOp::Ins(0, vec![1, 2])], vec![SOp::Del(0, vec![1, 2])]]));
                v.push(mk("se_insert_vs_insert_same_tuple", "C15", b, vec![SOp::CreateKg(0)], vec![vec![SOp::Ins(0, vec![1])], vec![SOp::Ins(0, vec![1])]]));
                v.push(mk("se_insert_other_kg_vs_save_all", "C15", b, vec![SOp::CreateKg(0), SOp::CreateKg(1), SOp::Ins(0, vec![1])], vec![vec![SOp::Ins(1, vec![2])], vec![SOp::SaveAll]]));
                if !quick {
                    v.push(mk("se_insert_delete_save", "C15", b, vec![SOp::CreateKg(0), SOp::Ins(0, vec![1])], vec![vec![SOp::Ins(0, vec![2])], vec![SOp::Del(0, vec![1])], vec![SOp::SaveAll]]));
                }
            }
        }
    }
    v
}

/// Explore all scenarios of `prop`; violations go to `run` with class prefix = scenario name.
pub fn explore_scenarios(run: &Run, prop: &str, bound: usize) -> (u64, u64, u64, u64, usize) {
    let scs = scenarios(prop, run.quick());
    let deadline = run.start + Duration::from_secs_f64(run.budget_s);
    let totals = Mutex::new((0u64, 0u64, 0u64, 0u64, usize::MAX));
    run.par_for(scs.len(), threads().min(16), |i, l| {
        let sc = &scs[i];
        let mut crash_imgs = 0u64;
        let mut run_one = |prefix: &[usize], _b: usize| -> Result<Vec<Point>, ExecError> {
            let r = run_schedule(sc, prefix, true)?;
            l.eval();
            crash_imgs += r.crash_images;
            if r.points.windows(2).any(|w| w[0].chosen != w[1].chosen) {
                l.nontrivial(fnv(format!("{}{i}{:?}", sc.name, r.points.iter().map(|p| p.chosen).collect::<Vec<_>>()).as_bytes()));
            }
            l.outcome(fnv(format!("{:?}", r.points.iter().map(|p| p.chosen).collect::<Vec<_>>()).as_bytes()) % 1009);
            for (c, d) in r.violations {
                let choices: Vec<usize> = r.points.iter().map(|p| p.enabled.iter().position(|x| *x == p.chosen).unwrap()).collect();
                run.violation(&format!("{}:{c}", sc.name), json!({"scenario": sc, "schedule": choices, "sites": r.points.iter().map(|p| format!("{}@{}", p.chosen, p.site)).collect::<Vec<_>>()}), d);
            }
            Ok(r.points)
        };
        match explore(bound, deadline, &mut run_one) {
            Ok(st) => {
                if st.deadlocks > 0 {
                    run.violation(&format!("{}:deadlock", sc.name), json!({"scenario": sc}), format!("{} schedules of scenario {} end with no enabled participant", st.deadlocks, sc.name));
                }
                if st.capped {
                    run.capped.store(true, std::sync::atomic::Ordering::Relaxed);
                }
                if run.want_sample() {
                    run.sample(json!({"scenario": sc, "schedules": st.schedules, "max_preemptions_completed": st.max_preemptions_completed}));
                }
                let mut t = totals.lock().unwrap();
                t.0 += st.schedules;
                t.1 += st.steps;
                t.2 += crash_imgs;
                t.3 += st.deadlocks;
                t.4 = t.4.min(st.max_preemptions_completed);
            }
            Err(e) => run.machinery_error(format!("scenario {}: {e:?}", sc.name)),
        }
    });
    let t = totals.lock().unwrap();
    (t.0, t.1, t.2, t.3, if t.4 == usize::MAX { 0 } else { t.4 })
}

pub fn replay(args: &Args, prop: &str) -> i32 {
    let p = args.replay.as_ref().unwrap();
    let j = read_replay(p);
    let sc: Scenario = serde_json::from_value(j["case"]["scenario"].clone()).expect("scenario");
    let prefix: Vec<usize> = serde_json::from_value(j["case"]["schedule"].clone()).unwrap_or_default();
    let mut bad = false;
    for _ in 0..2 {
        match run_schedule(&sc, &prefix, true) {
            Ok(r) => {
                for (c, d) in &r.violations {
                    println!("class={c} {d}");
                }
                bad |= !r.violations.is_empty();
            }
            Err(e) => {
                println!("execution error: {e:?}");
                bad |= matches!(e, ExecError::Deadlock { .. });
            }
        }
    }
    if bad {
        println!("VIOLATION property={prop} replay={}", p.display());
    }
    bad as i32
}

pub fn c20(args: &Args) -> i32 {
    quiet_panics();
    if args.replay.is_some() {
        return replay(args, "C20");
    }
    let run = Run::new(args, "model_checking", 110.0, 1500.0);
    let bound = if run.quick() { 2 } else { 3 };
    run.set_rule("interleavings of real threads on one real StorageEngine at the storage-engine and persist-layer scheduling points: a writer issuing a two-tuple batch insert / batch delete / rule registration (then reading its own write) against 1-2 readers issuing snapshot queries, two writers and a reader, a batch insert against a batch delete of overlapping tuples; ALL schedules with at most B preemptions. Oracle: the observed query results and acknowledgements must be linearizable against a sequential set model (brute force over all orders consistent with real time and program order) - in particular no query sees one tuple of a batch without the other, and a thread sees its own acknowledged write; the final served state, the state after a clean restart, and the state recovered from the directory copied at every scheduling step must be explained the same way. non-trivial = schedules with at least one context switch; states = scheduling points visited");
    run.assume("sequentially consistent scheduling at the hook sites; code between two sites is atomic");
    let (sched, steps, imgs, dl, b) = explore_scenarios(&run, "C20", bound);
    run.put("schedules", json!(sched));
    run.put("states", json!(steps));
    run.put("transitions", json!(steps));
    run.put("traces_validated_against_impl", json!(sched));
    run.put("crash_images_recovered", json!(imgs));
    run.put("deadlocks", json!(dl));
    run.put("preemption_bound", json!(bound));
    run.put("preemption_bound_completed_in_every_scenario", json!(b));
    run.finish()
}
