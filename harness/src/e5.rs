//! E5 FIN — complete finite domains. C31 (value order laws).

use crate::common::*;
use inputlayer::storage::persist::{consolidate_to_current, Update};
use inputlayer::{Tuple, Value};
use serde_json::json;
use std::cmp::Ordering;
use std::collections::hash_map::DefaultHasher;
use std::collections::BTreeMap;
use std::hash::{Hash, Hasher};

pub fn value_pool() -> Vec<Value> {
    let mut v = vec![
        Value::Null,
        Value::Bool(false),
        Value::Bool(true),
        Value::Int32(0),
        Value::Int32(1),
        Value::Int32(-1),
        Value::Int32(i32::MAX),
        Value::Int64(0),
        Value::Int64(1),
        Value::Int64(-1),
        Value::Int64(i64::MIN),
        Value::Int64(i64::MAX),
        Value::Float64(0.0),
        Value::Float64(-0.0),
        Value::Float64(1.0),
        Value::Float64(f64::from_bits(1.0f64.to_bits() + 1)),
        Value::Float64(-1.5),
        Value::Float64(f64::NAN),
        Value::Float64(f64::from_bits(f64::NAN.to_bits() | 1)),
        Value::Float64(f64::INFINITY),
        Value::Float64(f64::NEG_INFINITY),
        Value::string(""),
        Value::string("a"),
        Value::string("b"),
        Value::string("é"),
        Value::Timestamp(0),
        Value::Timestamp(1),
        Value::vector(vec![]),
        Value::vector(vec![1.0]),
        Value::vector(vec![1.0, 2.0]),
        Value::vector(vec![1.0, 3.0]),
        Value::vector(vec![0.0]),
        Value::vector(vec![-0.0]),
        Value::vector(vec![f32::NAN]),
        Value::vector_int8(vec![]),
        Value::vector_int8(vec![-128, 127]),
        Value::vector_int8(vec![-128, 126]),
    ];
    v.dedup_by(|a, b| same(a, b));
    v
}

/// Harness-side structural identity: same variant and same bits.
pub fn same(a: &Value, b: &Value) -> bool {
    match (a, b) {
        (Value::Null, Value::Null) => true,
        (Value::Bool(x), Value::Bool(y)) => x == y,
        (Value::Int32(x), Value::Int32(y)) => x == y,
        (Value::Int64(x), Value::Int64(y)) => x == y,
        (Value::Float64(x), Value::Float64(y)) => x.to_bits() == y.to_bits(),
        (Value::String(x), Value::String(y)) => x == y,
        (Value::Timestamp(x), Value::Timestamp(y)) => x == y,
        (Value::Vector(x), Value::Vector(y)) => x.len() == y.len() && x.iter().zip(y.iter()).all(|(p, q)| p.to_bits() == q.to_bits()),
        (Value::VectorInt8(x), Value::VectorInt8(y)) => x == y,
        _ => false,
    }
}
pub fn same_tuple(a: &Tuple, b: &Tuple) -> bool {
    a.arity() == b.arity() && a.values().iter().zip(b.values()).all(|(x, y)| same(x, y))
}

pub fn kind(v: &Value) -> &'static str {
    match v {
        Value::Null => "Null",
        Value::Bool(_) => "Bool",
        Value::Int32(_) => "Int32",
        Value::Int64(_) => "Int64",
        Value::Float64(_) => "Float64",
        Value::String(_) => "String",
        Value::Timestamp(_) => "Timestamp",
        Value::Vector(_) => "Vector",
        Value::VectorInt8(_) => "VectorInt8",
    }
}

fn h<T: Hash>(t: &T) -> u64 {
    let mut s = DefaultHasher::new();
    t.hash(&mut s);
    s.finish()
}

fn kinds(vs: &[&Value]) -> String {
    let mut k: Vec<&str> = vs.iter().map(|v| kind(v)).collect();
    k.sort();
    k.dedup();
    k.join("+")
}
fn tkinds(ts: &[&Tuple]) -> String {
    let mut k: Vec<&str> = ts.iter().flat_map(|t| t.values().iter().map(kind)).collect();
    k.sort();
    k.dedup();
    k.join("+")
}

pub fn c31(args: &Args) -> i32 {
    quiet_panics();
    let run = Run::new(args, "exploration", 50.0, 600.0);
    run.set_rule("all ordered pairs and triples of a finite pool of representative values of every kind (and of 1-2 column tuples over a sub-pool): cmp==Equal <=> ==, == => equal hash, reflexivity, antisymmetry, transitivity; consolidate_to_current on every 3-update multiset of tuples. non-trivial = pairs/triples whose members are not all structurally identical (counted distinct by index)");
    let pool = value_pool();
    run.put("value_pool_size", json!(pool.len()));
    run.sample(json!(pool.iter().take(12).map(|v| format!("{v:?}")).collect::<Vec<_>>()));
    if let Some(p) = &args.replay {
        let j = read_replay(p);
        println!("replay case: {}", j["case"]);
        // the pair/triple indexes refer to the pool; re-run the full check (cheap) and report
    }
    let mut l = Local::default();
    let n = pool.len();
    // pair laws
    for i in 0..n {
        for j in 0..n {
            let (a, b) = (&pool[i], &pool[j]);
            l.eval();
            if i != j {
                l.nontrivial((i * n + j) as u64);
            }
            let c = std::panic::catch_unwind(|| (a.cmp(b), b.cmp(a), a == b));
            let Ok((ab, ba, eq)) = c else {
                run.violation(&format!("panic_in_cmp:{}", kinds(&[a, b])), json!({"a": format!("{a:?}"), "b": format!("{b:?}")}), "cmp/eq panicked".into());
                continue;
            };
            l.outcome(((ab as i8 + 1) as u64) * 4 + eq as u64);
            if (ab == Ordering::Equal) != eq {
                run.violation(
                    &format!("cmp_equal_iff_eq:{}", kinds(&[a, b])),
                    json!({"a": format!("{a:?}"), "b": format!("{b:?}")}),
                    format!("cmp({a:?},{b:?})={ab:?} but (a==b)={eq}"),
                );
            }
            if eq && h(a) != h(b) {
                run.violation(&format!("eq_implies_hash:{}", kinds(&[a, b])), json!({"a": format!("{a:?}"), "b": format!("{b:?}")}), format!("{a:?}=={b:?} but hashes differ"));
            }
            if ab != ba.reverse() {
                run.violation(&format!("antisymmetry:{}", kinds(&[a, b])), json!({"a": format!("{a:?}"), "b": format!("{b:?}")}), format!("cmp(a,b)={ab:?} cmp(b,a)={ba:?}"));
            }
            if i == j && !eq {
                run.violation(&format!("reflexivity:{}", kinds(&[a])), json!({"a": format!("{a:?}")}), format!("{a:?} != itself"));
            }
            if same(a, b) != eq && i != j {
                // structural identity is the finest equality; == coarser than identity would merge distinct stored values
                run.violation(&format!("eq_differs_from_identity:{}", kinds(&[a, b])), json!({"a": format!("{a:?}"), "b": format!("{b:?}")}), format!("{a:?} == {b:?} is {eq} but they are {}structurally identical", if same(a, b) { "" } else { "not " }));
            }
        }
    }
    // triples: transitivity
    for i in 0..n {
        for j in 0..n {
            let ab = pool[i].cmp(&pool[j]);
            for k in 0..n {
                l.eval();
                let bc = pool[j].cmp(&pool[k]);
                let ac = pool[i].cmp(&pool[k]);
                if i != j && j != k && i != k {
                    l.nontrivial(((i * n + j) * n + k) as u64 + 1_000_000);
                }
                let le = |o: Ordering| o != Ordering::Greater;
                if le(ab) && le(bc) && !le(ac) {
                    run.violation(
                        &format!("transitivity:{}", kinds(&[&pool[i], &pool[j], &pool[k]])),
                        json!({"a": format!("{:?}", pool[i]), "b": format!("{:?}", pool[j]), "c": format!("{:?}", pool[k])}),
                        format!("a<=b ({ab:?}) and b<=c ({bc:?}) but a>c"),
                    );
                }
                if ab == Ordering::Equal && bc == Ordering::Equal && ac != Ordering::Equal {
                    run.violation(
                        &format!("equal_transitivity:{}", kinds(&[&pool[i], &pool[j], &pool[k]])),
                        json!({"a": format!("{:?}", pool[i]), "b": format!("{:?}", pool[j]), "c": format!("{:?}", pool[k])}),
                        "a~b, b~c but not a~c".into(),
                    );
                }
            }
        }
    }
    // tuples over a sub-pool
    let sub: Vec<Value> = vec![
        Value::Null,
        Value::Int32(1),
        Value::Int64(1),
        Value::Float64(0.0),
        Value::Float64(-0.0),
        Value::Float64(f64::NAN),
        Value::Float64(1.0),
        Value::string("a"),
        Value::vector(vec![0.0]),
        Value::vector(vec![-0.0]),
    ];
    let mut tuples: Vec<Tuple> = sub.iter().map(|v| Tuple::new(vec![v.clone()])).collect();
    for a in &sub {
        for b in &sub {
            tuples.push(Tuple::new(vec![a.clone(), b.clone()]));
        }
    }
    let tn = tuples.len();
    run.put("tuple_pool_size", json!(tn));
    for i in 0..tn {
        for j in 0..tn {
            l.eval();
            let (a, b) = (&tuples[i], &tuples[j]);
            let ab = a.cmp(b);
            let eq = a == b;
            if (ab == Ordering::Equal) != eq {
                run.violation(&format!("tuple_cmp_equal_iff_eq:{}", tkinds(&[a, b])), json!({"a": format!("{a:?}"), "b": format!("{b:?}")}), format!("cmp={ab:?} eq={eq}"));
            }
            if eq && h(a) != h(b) {
                run.violation(&format!("tuple_eq_implies_hash:{}", tkinds(&[a, b])), json!({"a": format!("{a:?}"), "b": format!("{b:?}")}), "equal tuples hash differently".into());
            }
            if ab != b.cmp(a).reverse() {
                run.violation(&format!("tuple_antisymmetry:{}", tkinds(&[a, b])), json!({"a": format!("{a:?}"), "b": format!("{b:?}")}), "antisymmetry".into());
            }
        }
    }
    // consolidate_to_current on all 3-update multisets over single-column tuples of the sub-pool (+ 2-col ones sharing the float column)
    let ctuples: Vec<Tuple> = tuples.iter().take(sub.len() + 30).cloned().collect();
    let cn = ctuples.len();
    for i in 0..cn {
        for j in 0..cn {
            for k in 0..cn {
                for signs in 0..8u8 {
                    l.eval();
                    let d = |b: u8| if signs & b != 0 { -1i64 } else { 1 };
                    let ups = vec![(i, d(1)), (j, d(2)), (k, d(4))];
                    let mut updates: Vec<Update> = ups.iter().map(|(x, df)| Update { data: ctuples[*x].clone(), time: 1, diff: *df }).collect();
                    consolidate_to_current(&mut updates);
                    // oracle: group by structural identity
                    let mut exp: Vec<(usize, i64)> = vec![];
                    for (x, df) in &ups {
                        if let Some(e) = exp.iter_mut().find(|(y, _)| same_tuple(&ctuples[*y], &ctuples[*x])) {
                            e.1 += df;
                        } else {
                            exp.push((*x, *df));
                        }
                    }
                    exp.retain(|e| e.1 != 0);
                    let ok = exp.len() == updates.len() && exp.iter().all(|(x, df)| updates.iter().any(|u| same_tuple(&u.data, &ctuples[*x]) && u.diff == *df));
                    if !ok {
                        run.violation(
                            &format!("consolidate_merges_wrongly:{}", tkinds(&[&ctuples[i], &ctuples[j], &ctuples[k]])),
                            json!({"updates": ups.iter().map(|(x, df)| format!("{:?} {df:+}", ctuples[*x])).collect::<Vec<_>>()}),
                            format!("consolidate_to_current returned {:?}", updates.iter().map(|u| format!("{:?} {:+}", u.data, u.diff)).collect::<Vec<_>>()),
                        );
                    }
                }
            }
        }
    }
    run.sample(json!({"triple": [format!("{:?}", pool[12]), format!("{:?}", pool[13]), format!("{:?}", pool[17])]}));
    run.merge(l);
    let _ = BTreeMap::<u8, u8>::new();
    run.finish()
}
