//! E5 FIN — complete finite domains. C31 (value order laws).

use crate::common::*;
use inputlayer::storage::persist::{consolidate_to_current, Update};
use inputlayer::{Tuple, Value};
use serde_json::json;
use std::cmp::Ordering;
use std::collections::hash_map::DefaultHasher;
use std::collections::BTreeMap;
use std::hash::{Hash, Hasher};

pub fn value_pool() -> Vec<Value> {
    let mut v = vec![
        Value::Null,
        Value::Bool(false),
        Value::Bool(true),
        Value::Int32(0),
        Value::Int32(1),
        Value::Int32(-1),
        Value::Int32(i32::MAX),
        Value::Int64(0),
        Value::Int64(1),
        Value::Int64(-1),
        Value::Int64(i64::MIN),
        Value::Int64(i64::MAX),
        Value::Float64(0.0),
        Value::Float64(-0.0),
        Value::Float64(1.0),
        Value::Float64(f64::from_bits(1.0f64.to_bits() + 1)),
        Value::Float64(-1.5),
        Value::Float64(f64::NAN),
        Value::Float64(f64::from_bits(f64::NAN.to_bits() | 1)),
        Value::Float64(f64::INFINITY),
        Value::Float64(f64::NEG_INFINITY),
        Value::string(""),
        Value::string("a"),
        Value::string("b"),
        Value::string("é"),
        Value::Timestamp(0),
        Value::Timestamp(1),
        Value::vector(vec![]),
        Value::vector(vec![1.0]),
        Value::vector(vec![1.0, 2.0]),
        Value::vector(vec![1.0, 3.0]),
        Value::vector(vec![0.0]),
        Value::vector(vec![-0.0]),
        Value::vector(vec![f32::NAN]),
        Value::vector_int8(vec![]),
        Value::vector_int8(vec![-128, 127]),
        Value::vector_int8(vec![-128, 126]),
    ];
    v.dedup_by(|a, b| same(a, b));
    v
}

/// Harness-side structural identity: same variant and same bits.
pub fn same(a: &Value, b: &Value) -> bool {
    match (a, b) {
        (Value::Null, Value::Null) => true,
        (Value::Bool(x), Value::Bool(y)) => x == y,
        (Value::Int32(x), Value::Int32(y)) => x == y,
        (Value::Int64(x), Value::Int64(y)) => x == y,
        (Value::Float64(x), Value::Float64(y)) => x.to_bits() == y.to_bits(),
        (Value::String(x), Value::String(y)) => x == y,
        (Value::Timestamp(x), Value::Timestamp(y)) => x == y,
        (Value::Vector(x), Value::Vector(y)) => x.len() == y.len() && x.iter().zip(y.iter()).all(|(p, q)| p.to_bits() == q.to_bits()),
        (Value::VectorInt8(x), Value::VectorInt8(y)) => x == y,
        _ => false,
    }
}
pub fn same_tuple(a: &Tuple, b: &Tuple) -> bool {
    a.arity() == b.arity() && a.values().iter().zip(b.values()).all(|(x, y)| same(x, y))
}

pub fn kind(v: &Value) -> &'static str {
    match v {
        Value::Null => "Null",
        Value::Bool(_) => "Bool",
        Value::Int32(_) => "Int32",
        Value::Int64(_) => "Int64",
        Value::Float64(_) => "Float64",
        Value::String(_) => "String",
        Value::Timestamp(_) => "Timestamp",
        Value::Vector(_) => "Vector",
        Value::VectorInt8(_) => "VectorInt8",
    }
}

fn h<T: Hash>(t: &T) -> u64 {
    let mut s = DefaultHasher::new();
    t.hash(&mut s);
    s.finish()
}

fn kinds(vs: &[&Value]) -> String {
    let mut k: Vec<&str> = vs.iter().map(|v| kind(v)).collect();
    k.sort();
    k.dedup();
    k.join("+")
}
fn tkinds(ts: &[&Tuple]) -> String {
    let mut k: Vec<&str> = ts.iter().flat_map(|t| t.values().iter().map(kind)).collect();
    k.sort();
    k.dedup();
    k.join("+")
}

pub fn c31(args: &Args) -> i32 {
    quiet_panics();
    let run = Run::new(args, "exploration", 50.0, 600.0);
    run.set_rule("all ordered pairs and triples of a finite pool of representative values of every kind (and of 1-2 column tuples over a sub-pool): cmp==Equal <=> ==, == => equal hash, reflexivity, antisymmetry, transitivity; consolidate_to_current on every 3-update multiset of tuples. non-trivial = pairs/triples whose members are not all structurally identical (counted distinct by index)");
    let pool = value_pool();
    run.put("value_pool_size", json!(pool.len()));
    run.sample(json!(pool.iter().take(12).map(|v| format!("{v:?}")).collect::<Vec<_>>()));
    if let Some(p) = &args.replay {
        let j = read_replay(p);
        println!("replay case: {}", j["case"]);
        // the pair/triple indexes refer to the pool; re-run the full check (cheap) and report
    }
    let mut l = Local::default();
    let n = pool.len();
    // pair laws
    for i in 0..n {
        for j in 0..n {
            let (a, b) = (&pool[i], &pool[j]);
            l.eval();
            if i != j {
                l.nontrivial((i * n + j) as u64);
            }
            let c = std::panic::catch_unwind(|| (a.cmp(b), b.cmp(a), a == b));
            let Ok((ab, ba, eq)) = c else {
                run.violation(&format!("panic_in_cmp:{}", kinds(&[a, b])), json!({"a": format!("{a:?}"), "b": format!("{b:?}")}), "cmp/eq panicked".into());
                continue;
            };
            l.outcome(((ab as i8 + 1) as u64) * 4 + eq as u64);
            if (ab == Ordering::Equal) != eq {
                run.violation(
                    &format!("cmp_equal_iff_eq:{}", kinds(&[a, b])),
                    json!({"a": format!("{a:?}"), "b": format!("{b:?}")}),
                    format!("cmp({a:?},{b:?})={ab:?} but (a==b)={eq}"),
                );
            }
            if eq && h(a) != h(b) {
                run.violation(&format!("eq_implies_hash:{}", kinds(&[a, b])), json!({"a": format!("{a:?}"), "b": format!("{b:?}")}), format!("{a:?}=={b:?} but hashes differ"));
            }
            if ab != ba.reverse() {
                run.violation(&format!("antisymmetry:{}", kinds(&[a, b])), json!({"a": format!("{a:?}"), "b": format!("{b:?}")}), format!("cmp(a,b)={ab:?} cmp(b,a)={ba:?}"));
            }
            if i == j && !eq {
                run.violation(&format!("reflexivity:{}", kinds(&[a])), json!({"a": format!("{a:?}")}), format!("{a:?} != itself"));
            }
            if same(a, b) != eq && i != j {
                // structural identity is the finest equality; == coarser than identity would merge distinct stored values
                run.violation(&format!("eq_differs_from_identity:{}", kinds(&[a, b])), json!({"a": format!("{a:?}"), "b": format!("{b:?}")}), format!("{a:?} == {b:?} is {eq} but they are {}structurally identical", if same(a, b) { "" } else { "not " }));
            }
        }
    }
    // triples: transitivity
    for i in 0..n {
        for j in 0..n {
            let ab = pool[i].cmp(&pool[j]);
            for k in 0..n {
                l.eval();
                let bc = pool[j].cmp(&pool[k]);
                let ac = pool[i].cmp(&pool[k]);
                if i != j && j != k && i != k {
                    l.nontrivial(((i * n + j) * n + k) as u64 + 1_000_000);
                }
                let le = |o: Ordering| o != Ordering::Greater;
                if le(ab) && le(bc) && !le(ac) {
                    run.violation(
                        &format!("transitivity:{}", kinds(&[&pool[i], &pool[j], &pool[k]])),
                        json!({"a": format!("{:?}", pool[i]), "b": format!("{:?}", pool[j]), "c": format!("{:?}", pool[k])}),
                        format!("a<=b ({ab:?}) and b<=c ({bc:?}) but a>c"),
                    );
                }
                if ab == Ordering::Equal && bc == Ordering::Equal && ac != Ordering::Equal {
                    run.violation(
                        &format!("equal_transitivity:{}", kinds(&[&pool[i], &pool[j], &pool[k]])),
                        json!({"a": format!("{:?}", pool[i]), "b": format!("{:?}", pool[j]), "c": format!("{:?}", pool[k])}),
                        "a~b, b~c but not a~c".into(),
                    );
                }
            }
        }
    }
    // tuples over a sub-pool
    let sub: Vec<Value> = vec![
        Value::Null,
        Value::Int32(1),
        Value::Int64(1),
        Value::Float64(0.0),
        Value::Float64(-0.0),
        Value::Float64(f64::NAN),
        Value::Float64(1.0),
        Value::string("a"),
        Value::vector(vec![0.0]),
        Value::vector(vec![-0.0]),
    ];
    let mut tuples: Vec<Tuple> = sub.iter().map(|v| Tuple::new(vec![v.clone()])).collect();
    for a in &sub {
        for b in &sub {
            tuples.push(Tuple::new(vec![a.clone(), b.clone()]));
        }
    }
    let tn = tuples.len();
    run.put("tuple_pool_size", json!(tn));
    for i in 0..tn {
        for j in 0..tn {
            l.eval();
            let (a, b) = (&tuples[i], &tuples[j]);
            let ab = a.cmp(b);
            let eq = a == b;
            if (ab == Ordering::Equal) != eq {
                run.violation(&format!("tuple_cmp_equal_iff_eq:{}", tkinds(&[a, b])), json!({"a": format!("{a:?}"), "b": format!("{b:?}")}), format!("cmp={ab:?} eq={eq}"));
            }
            if eq && h(a) != h(b) {
                run.violation(&format!("tuple_eq_implies_hash:{}", tkinds(&[a, b])), json!({"a": format!("{a:?}"), "b": format!("{b:?}")}), "equal tuples hash differently".into());
            }
            if ab != b.cmp(a).reverse() {
                run.violation(&format!("tuple_antisymmetry:{}", tkinds(&[a, b])), json!({"a": format!("{a:?}"), "b": format!("{b:?}")}), "antisymmetry".into());
            }
        }
    }
    // consolidate_to_current on all 3-update multisets over single-column tuples of the sub-pool (+ 2-col ones sharing the float column)
    let ctuples: Vec<Tuple> = tuples.iter().take(sub.len() + 30).cloned().collect();
    let cn = ctuples.len();
    for i in 0..cn {
        for j in 0..cn {
            for k in 0..cn {
                for signs in 0..8u8 {
                    l.eval();
                    let d = |b: u8| if signs & b != 0 { -1i64 } else { 1 };
                    let ups = vec![(i, d(1)), (j, d(2)), (k, d(4))];
                    let mut updates: Vec<Update> = ups.iter().map(|(x, df)| Update { data: ctuples[*x].clone(), time: 1, diff: *df }).collect();
                    consolidate_to_current(&mut updates);
                    // oracle: group by structural identity
                    let mut exp: Vec<(usize, i64)> = vec![];
                    for (x, df) in &ups {
                        if let Some(e) = exp.iter_mut().find(|(y, _)| same_tuple(&ctuples[*y], &ctuples[*x])) {
                            e.1 += df;
                        } else {
                            exp.push((*x, *df));
                        }
                    }
                    exp.retain(|e| e.1 != 0);
                    let ok = exp.len() == updates.len() && exp.iter().all(|(x, df)| updates.iter().any(|u| same_tuple(&u.data, &ctuples[*x]) && u.diff == *df));
                    if !ok {
                        run.violation(
                            &format!("consolidate_merges_wrongly:{}", tkinds(&[&ctuples[i], &ctuples[j], &ctuples[k]])),
                            json!({"updates": ups.iter().map(|(x, df)| format!("{:?} {df:+}", ctuples[*x])).collect::<Vec<_>>()}),
                            format!("consolidate_to_current returned {:?}", updates.iter().map(|u| format!("{:?} {:+}", u.data, u.diff)).collect::<Vec<_>>()),
                        );
                    }
                }
            }
        }
    }
    run.sample(json!({"triple": [format!("{:?}", pool[12]), format!("{:?}", pool[13]), format!("{:?}", pool[17])]}));
    run.merge(l);
    let _ = BTreeMap::<u8, u8>::new();
    run.finish()
}

// ---------------------------------------------------------------------------
// C28 — role lattice; viewers read-only; admin-only operations

use inputlayer::auth::{authorize_kg_operation, authorize_statement, KgRole, Role};
use inputlayer::statement::{parse_statement, IndexCreateOptions, LoadMode, MetaCommand, Statement};

/// R5: the harness's own classification. No wildcard arm: a new variant fails the build.
#[derive(Clone, Copy, PartialEq, Eq, Debug)]
pub enum Class {
    Read,
    SessionOnly,
    WritesFacts,
    WritesRules,
    WritesSchema,
    KgLifecycle,
    Acl,
    IndexWrite,
    AdminOnly,
    Unclassified,
}

pub fn classify_meta(m: &MetaCommand) -> Class {
    use MetaCommand::*;
    match m {
        KgShow | KgList | KgUse(_) => Class::Read,
        KgCreate(_) | KgDrop(_) => Class::KgLifecycle,
        RelList | RelDescribe(_) => Class::Read,
        RelDrop(_) => Class::WritesFacts,
        RuleList | RuleQuery(_) | RuleShowDef(_) => Class::Read,
        RuleDrop(_) | RuleDropPrefix(_) | RuleEdit { .. } | RuleClear(_) | RuleRemove { .. } => Class::WritesRules,
        SessionList | SessionClear | SessionDrop(_) | SessionDropName(_) => Class::SessionOnly,
        IndexList | IndexStats(_) => Class::Read,
        IndexCreate(_) | IndexDrop(_) | IndexRebuild(_) => Class::IndexWrite,
        ClearPrefix(_) => Class::WritesFacts,
        Compact => Class::AdminOnly,
        Status | Debug(_) | Why(_) | WhyFull(_) | WhyNot(_) | Help | Quit => Class::Read,
        AgentMessage(_) | AgentStart(_) | AgentSetup(_) | AgentExamples => Class::Read,
        Load { .. } => Class::WritesFacts,
        UserList | UserCreate { .. } | UserDrop(_) | UserPassword { .. } | UserRole { .. } => Class::AdminOnly,
        ApiKeyCreate(_) | ApiKeyList | ApiKeyRevoke(_) => Class::AdminOnly,
        KgAclList(_) => Class::Read,
        KgAclGrant { .. } | KgAclRevoke { .. } => Class::Acl,
    }
}

pub fn classify(s: &Statement) -> Class {
    match s {
        Statement::Meta(m) => classify_meta(m),
        Statement::Insert(_) | Statement::Delete(_) | Statement::Update(_) => Class::WritesFacts,
        Statement::TypeDecl(_) => Class::Unclassified,
        Statement::SessionRule(_) | Statement::Fact(_) => Class::SessionOnly,
        Statement::Query(_) => Class::Read,
        Statement::SchemaDecl(d) => {
            if d.persistent {
                Class::WritesSchema
            } else {
                Class::SessionOnly
            }
        }
        Statement::PersistentRule(_) => Class::WritesRules,
        Statement::DeleteRelationOrRule(_) => Class::WritesFacts,
    }
}

pub fn changes_persistent_state(c: Class) -> bool {
    matches!(c, Class::WritesFacts | Class::WritesRules | Class::WritesSchema | Class::KgLifecycle | Class::Acl | Class::IndexWrite | Class::AdminOnly)
}

pub fn all_meta_variants() -> Vec<MetaCommand> {
    use MetaCommand::*;
    let s = || "x".to_string();
    vec![
        KgShow,
        KgList,
        KgCreate(s()),
        KgUse(s()),
        KgDrop(s()),
        RelList,
        RelDescribe(s()),
        RelDrop(s()),
        RuleList,
        RuleQuery(s()),
        RuleShowDef(s()),
        RuleDrop(s()),
        RuleDropPrefix(s()),
        RuleEdit { name: s(), index: 0, rule_text: "x(X) <- e(X)".into() },
        RuleClear(s()),
        RuleRemove { name: s(), index: 0 },
        SessionList,
        SessionClear,
        SessionDrop(0),
        SessionDropName(s()),
        IndexList,
        IndexCreate(IndexCreateOptions { name: s(), relation: s(), column: s(), index_type: "hnsw".into(), metric: None, m: None, ef_construction: None, ef_search: None }),
        IndexDrop(s()),
        IndexStats(s()),
        IndexRebuild(s()),
        ClearPrefix(s()),
        Compact,
        Status,
        Debug(s()),
        Why(s()),
        WhyFull(s()),
        WhyNot(s()),
        AgentMessage(s()),
        AgentStart(s()),
        AgentSetup(s()),
        AgentExamples,
        Help,
        Quit,
        Load { path: s(), mode: LoadMode::Default },
        Load { path: s(), mode: LoadMode::Replace },
        Load { path: s(), mode: LoadMode::Merge },
        UserList,
        UserCreate { username: s(), password: s(), role: "viewer".into() },
        UserDrop(s()),
        UserPassword { username: s(), password: s() },
        UserRole { username: s(), role: "admin".into() },
        ApiKeyCreate(s()),
        ApiKeyList,
        ApiKeyRevoke(s()),
        KgAclList(None),
        KgAclList(Some(s())),
        KgAclGrant { kg_name: s(), username: s(), role: "owner".into() },
        KgAclRevoke { kg_name: s(), username: s() },
    ]
}

pub const STATEMENT_TEXTS: &[&str] = &[
    "?e(X)",
    "?e(X, Y), X > 1",
    "+e(1)",
    "+e[(1, 2), (3, 4)]",
    "-e(1)",
    "-e(X) <- e(X), X > 1",
    "-e(X, Y), +e(X, 5) <- e(X, Y), Y < 3",
    "+p(X) <- e(X)",
    "p(X) <- e(X)",
    "e(1)",
    "+s(a: int, b: string)",
    "s(a: int)",
    "type Age: int",
    "-e",
    ".kg",
    ".kg list",
    ".kg create k",
    ".kg use k",
    ".kg drop k",
    ".rel",
    ".rel e",
    ".rel drop e",
    ".rule",
    ".rule p",
    ".rule def p",
    ".rule drop p",
    ".rule drop prefix p",
    ".rule edit p 1 +p(X) <- e(X)",
    ".rule clear p",
    ".rule remove p 1",
    ".session",
    ".session clear",
    ".session drop 1",
    ".session drop p",
    ".index",
    ".index create i on d(v)",
    ".index drop i",
    ".index stats i",
    ".index rebuild i",
    ".clear prefix p",
    ".compact",
    ".status",
    ".debug ?e(X)",
    ".why ?e(X)",
    ".why full ?e(X)",
    ".why_not e(1)",
    ".help",
    ".load f.iql",
    ".load f.iql --replace",
    ".user list",
    ".user create u pw viewer",
    ".user drop u",
    ".user password u pw",
    ".user role u admin",
    ".apikey create l",
    ".apikey list",
    ".apikey revoke l",
    ".kg acl list",
    ".kg acl grant k u editor",
    ".kg acl revoke k u",
];

pub fn c28(args: &Args) -> i32 {
    quiet_panics();
    let run = Run::new(args, "exploration", 50.0, 300.0);
    run.set_rule("every Statement variant (parsed from text) and every MetaCommand variant (constructed directly and parsed from text) x every KgRole and Role: lattice monotonicity, viewer never permitted a state-changing statement (R5 classification table in harness), admin-only operations refused to every non-admin on the conjunction of both gates. non-trivial = distinct (statement, role) pairs");
    let mut stmts: Vec<(String, Statement)> = vec![];
    let mut parsed_variants = std::collections::BTreeSet::new();
    for t in STATEMENT_TEXTS {
        match parse_statement(t) {
            Ok(s) => {
                let tag = match &s {
                    Statement::Meta(m) => format!("Meta::{}", format!("{m:?}").split(['(', ' ', '{']).next().unwrap_or("")),
                    other => format!("{other:?}").split(['(', ' ', '{']).next().unwrap_or("").to_string(),
                };
                parsed_variants.insert(tag);
                stmts.push((format!("text:{t}"), s));
            }
            Err(e) => run.add("texts_rejected_by_parser", {
                eprintln!("note: parser rejects {t:?}: {e}");
                1
            }),
        }
    }
    for m in all_meta_variants() {
        stmts.push((format!("meta:{m:?}"), Statement::Meta(m)));
    }
    run.put("statements", json!(stmts.len()));
    run.put("parsed_variants", json!(parsed_variants));
    // every non-Meta Statement variant must be represented
    for need in ["Insert", "Delete", "Update", "TypeDecl", "SessionRule", "Fact", "Query", "SchemaDecl", "PersistentRule", "DeleteRelationOrRule"] {
        if !parsed_variants.contains(need) {
            run.machinery_error(format!("no parsed representative for Statement::{need}"));
        }
    }
    let mut l = Local::default();
    let kg_roles = [KgRole::Viewer, KgRole::Editor, KgRole::Owner];
    let roles = [Role::Viewer, Role::Editor, Role::Admin];
    for (si, (name, s)) in stmts.iter().enumerate() {
        let cls = classify(s);
        let kg: Vec<bool> = kg_roles.iter().map(|r| authorize_kg_operation(r, s).is_ok()).collect();
        let gl: Vec<bool> = roles.iter().map(|r| authorize_statement(r, s).is_ok()).collect();
        for (ri, _) in kg_roles.iter().enumerate() {
            l.eval();
            l.nontrivial((si * 8 + ri) as u64);
            l.eval();
            l.nontrivial((si * 8 + 4 + ri) as u64);
        }
        l.outcome(fnv(format!("{kg:?}{gl:?}").as_bytes()));
        if run.want_sample() && si % 17 == 0 {
            run.sample(json!({"statement": name, "class": format!("{cls:?}"), "kg_viewer_editor_owner": kg, "global_viewer_editor_admin": gl}));
        }
        let tag = name.split([':', '(', ' ', '{']).nth(1).unwrap_or("").to_string();
        let case = json!({"statement": name});
        if (kg[0] && !kg[1]) || (kg[1] && !kg[2]) {
            run.violation(&format!("kg_lattice:{tag}"), case.clone(), format!("{name}: viewer/editor/owner = {kg:?}"));
        }
        if (gl[0] && !gl[1]) || (gl[1] && !gl[2]) {
            run.violation(&format!("global_lattice:{tag}"), case.clone(), format!("{name}: viewer/editor/admin = {gl:?}"));
        }
        if changes_persistent_state(cls) && kg[0] {
            run.violation(&format!("kg_viewer_can_write:{tag}"), case.clone(), format!("{name} classified {cls:?} is permitted to KgRole::Viewer"));
        }
        if matches!(s, Statement::Meta(MetaCommand::KgCreate(_))) && gl[0] {
            run.violation("global_viewer_can_create_kg", case.clone(), "Role::Viewer may create knowledge graphs".into());
        }
        if cls == Class::AdminOnly {
            for (gi, g) in roles.iter().enumerate() {
                if *g == Role::Admin {
                    continue;
                }
                for (ki, _k) in kg_roles.iter().enumerate() {
                    if gl[gi] && kg[ki] {
                        run.violation(&format!("admin_only_permitted_to_non_admin:{tag}"), case.clone(), format!("{name}: global {g:?} + kg role #{ki} both permit"));
                    }
                }
            }
            // the global gate alone must refuse (it is the only gate applied when no KG is involved)
            if gl[0] || gl[1] {
                run.violation(&format!("admin_only_passes_global_gate:{tag}"), case.clone(), format!("{name}: global gate viewer/editor/admin = {gl:?}"));
            }
        }
        // text-parsed and directly constructed representatives of one variant must be treated alike: checked implicitly (both are in the list)
    }
    run.merge(l);
    run.finish()
}
