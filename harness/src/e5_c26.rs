//! C26 — vector builtins obey their laws (E5 FIN) + LSH cache-state independence
//! (sequential leg: every cache-operation sequence up to a depth bound; the interleaving leg lives in e4).

use crate::common::*;
use inputlayer::vector_ops::*;
use serde_json::json;
use std::collections::BTreeSet;
use std::panic::{catch_unwind, AssertUnwindSafe};

fn grid(vals: &[f32], d: usize) -> Vec<Vec<f32>> {
    let mut out: Vec<Vec<f32>> = vec![vec![]];
    for _ in 0..d {
        let mut nx = vec![];
        for v in &out {
            for x in vals {
                let mut w = v.clone();
                w.push(*x);
                nx.push(w);
            }
        }
        out = nx;
    }
    out
}
fn grid8(vals: &[i8], d: usize) -> Vec<Vec<i8>> {
    let mut out: Vec<Vec<i8>> = vec![vec![]];
    for _ in 0..d {
        let mut nx = vec![];
        for v in &out {
            for x in vals {
                let mut w = v.clone();
                w.push(*x);
                nx.push(w);
            }
        }
        out = nx;
    }
    out
}

fn close(a: f64, b: f64) -> bool {
    if a == b {
        return true;
    }
    let scale = a.abs().max(b.abs()).max(1e-12);
    (a - b).abs() <= 1e-5 * scale
}

fn magnitude_tag(a: &[f32], b: &[f32]) -> &'static str {
    let big = a.iter().chain(b.iter()).any(|x| x.abs() >= 1e5);
    let zero = a.iter().all(|x| *x == 0.0) || b.iter().all(|x| *x == 0.0);
    match (zero, big) {
        (true, _) => "zero_vector",
        (false, true) => "large_magnitude",
        _ => "ordinary",
    }
}

// ---- LSH cache sequential leg ------------------------------------------------------------------

#[derive(Clone, Copy, Debug, PartialEq)]
enum COp {
    Bucket(usize),  // index into bucket_calls()
    Clear,
    Cfg(usize),
    Prewarm(usize), // index into prewarms()
}
struct Call {
    v: Vec<f32>,
    v8: Option<Vec<i8>>,
    t: i64,
    h: usize,
}
fn bucket_calls() -> Vec<Call> {
    let a2 = vec![1.0f32, -0.5];
    let b2 = vec![-0.25f32, 2.0];
    let a3 = vec![1.0f32, -0.5, 0.75];
    vec![
        Call { v: a2.clone(), v8: None, t: 0, h: 4 },
        Call { v: b2.clone(), v8: None, t: 0, h: 4 },
        Call { v: a3.clone(), v8: None, t: 0, h: 4 }, // same (table, planes), other dimension
        Call { v: a2.clone(), v8: None, t: 1, h: 4 }, // other table
        Call { v: a2.clone(), v8: None, t: 0, h: 8 }, // other plane count
        Call { v: a2.clone(), v8: None, t: 0, h: 70 }, // clamped to 62
        Call { v: vec![], v8: Some(vec![3, -7]), t: 0, h: 4 }, // int8 twin shares the cache
    ]
}
fn prewarms() -> Vec<(i64, usize, usize)> {
    vec![(0, 4, 2), (0, 100, 2), (0, 4, 3)]
}
fn cfg_sizes() -> Vec<usize> {
    vec![0, 1, 2]
}
fn call_bucket(c: &Call) -> i64 {
    match &c.v8 {
        Some(v8) => lsh_bucket_int8(v8, c.t, c.h),
        None => lsh_bucket(&c.v, c.t, c.h),
    }
}
fn c_alpha() -> Vec<COp> {
    let mut v = vec![];
    for i in 0..bucket_calls().len() {
        v.push(COp::Bucket(i));
    }
    v.push(COp::Clear);
    for i in 0..cfg_sizes().len() {
        v.push(COp::Cfg(i));
    }
    for i in 0..prewarms().len() {
        v.push(COp::Prewarm(i));
    }
    v
}
fn reset_cache() {
    configure_lsh_cache_size(64);
    clear_lsh_cache();
}

pub fn c26(args: &Args) -> i32 {
    quiet_panics();
    let run = Run::new(args, "exploration", 50.0, 900.0);
    run.set_rule("E5: all ordered pairs of vectors on {-2,-1,0,1,2,1e6,-1e6}^d (d<=2 quick, <=3 thorough) for euclidean, squared euclidean, manhattan, cosine: symmetry, non-negativity, zero on identical inputs, cosine in [0,2]; int8 twins (native and dequantized) on {-128,-1,0,1,127}^d; quantize (linear, minmax, symmetric) then dequantize with the inverse affine map stays within one quantization step of every input component; lsh_probes(bucket,h,n) for all h<=6, all buckets < 2^h, all n <= 2^h+2 (and lsh_probes_ranked / lsh_multi_probe on a distance-vector pool): first = bucket, distinct, Hamming distance non-decreasing, at most n. E2 (sequential cache leg): ALL sequences up to depth L over {7 bucket calls (same table/planes with other dimension, other table, other plane count, clamped plane count, int8 twin), clear, configure size 0/1/2, 3 prewarms}: every bucket call returns the value computed in a freshly cleared cache. E4 (cache interleavings): see `cache_interleavings` in the coverage block. non-trivial = distinct pairs/vectors/sequences excluding all-zero inputs; floats compared with relative tolerance 1e-5");
    run.assume("the property's title mentions temporal builtins but its statement lists no temporal law: none is asserted");
    run.assume("quantization step: linear/minmax (max-min)/255, symmetric max_abs/127; the reconstruction uses the inverse of the documented affine map (dequantize_vector_with_scale for symmetric)");
    let d_max = if run.quick() { 2 } else { 3 };
    let vals = [-2.0f32, -1.0, 0.0, 1.0, 2.0, 1e6, -1e6];
    type F = fn(&[f32], &[f32]) -> f64;
    let fns: Vec<(&str, F, bool)> = vec![("euclidean", euclidean_distance, false), ("euclidean_squared", euclidean_distance_squared, false), ("manhattan", manhattan_distance, false), ("cosine", cosine_distance, true)];
    for d in 1..=d_max {
        let vs = grid(&vals, d);
        let n = vs.len();
        run.par_for(n * n, threads(), |ix, l| {
            let (a, b) = (&vs[ix / n], &vs[ix % n]);
            for (name, f, is_cos) in &fns {
                l.eval();
                let ab = f(a, b);
                let ba = f(b, a);
                let tag = magnitude_tag(a, b);
                if tag != "zero_vector" {
                    l.nontrivial(fnv(format!("{name}{a:?}{b:?}").as_bytes()));
                }
                l.outcome(ab.to_bits() >> 40);
                let case = json!({"fn": name, "a": a, "b": b});
                if !close(ab, ba) {
                    run.violation(&format!("distance:{name}:asymmetric:{tag}"), case.clone(), format!("{name}({a:?},{b:?})={ab} but {name}({b:?},{a:?})={ba}"));
                }
                if !(ab >= 0.0) {
                    run.violation(&format!("distance:{name}:negative_or_nan:{tag}"), case.clone(), format!("{name}({a:?},{b:?})={ab}"));
                }
                if *is_cos && !(ab >= 0.0 && ab <= 2.0 + 1e-9) {
                    run.violation(&format!("distance:{name}:outside_0_2:{tag}"), case.clone(), format!("{name}({a:?},{b:?})={ab}"));
                }
                if ix / n == ix % n {
                    let aa = f(a, a);
                    if !(aa.abs() <= 1e-5) {
                        run.violation(&format!("distance:{name}:identity:{tag}"), case, format!("{name}(v,v)={aa} for v={a:?}"));
                    }
                }
            }
        });
    }
    // int8 twins
    type F8 = fn(&[i8], &[i8]) -> f64;
    let fns8: Vec<(&str, F8, bool)> = vec![
        ("euclidean_int8", euclidean_distance_int8, false),
        ("manhattan_int8", manhattan_distance_int8, false),
        ("cosine_int8", cosine_distance_int8, true),
        ("euclidean_dequantized", euclidean_distance_dequantized, false),
        ("cosine_dequantized", cosine_distance_dequantized, true),
    ];
    let vals8 = [-128i8, -1, 0, 1, 127];
    for d in 1..=d_max {
        let vs = grid8(&vals8, d);
        let n = vs.len();
        run.par_for(n * n, threads(), |ix, l| {
            let (a, b) = (&vs[ix / n], &vs[ix % n]);
            for (name, f, is_cos) in &fns8 {
                l.eval();
                let ab = f(a, b);
                let ba = f(b, a);
                let zero = a.iter().all(|x| *x == 0) || b.iter().all(|x| *x == 0);
                let tag = if zero { "zero_vector" } else { "ordinary" };
                if !zero {
                    l.nontrivial(fnv(format!("{name}{a:?}{b:?}").as_bytes()));
                }
                let case = json!({"fn": name, "a": a, "b": b});
                if !close(ab, ba) {
                    run.violation(&format!("distance:{name}:asymmetric:{tag}"), case.clone(), format!("{name}({a:?},{b:?})={ab} vs {ba}"));
                }
                if !(ab >= 0.0) {
                    run.violation(&format!("distance:{name}:negative_or_nan:{tag}"), case.clone(), format!("{name}({a:?},{b:?})={ab}"));
                }
                if *is_cos && !(ab >= 0.0 && ab <= 2.0 + 1e-9) {
                    run.violation(&format!("distance:{name}:outside_0_2:{tag}"), case.clone(), format!("{name}({a:?},{b:?})={ab}"));
                }
                if ix / n == ix % n {
                    let aa = f(a, a);
                    if !(aa.abs() <= 1e-5) {
                        run.violation(&format!("distance:{name}:identity:{tag}"), case, format!("{name}(v,v)={aa} for v={a:?}"));
                    }
                }
            }
        });
    }
    // quantization round trip
    let qvals = [-2.0f32, -1.0, 0.0, 0.3, 1.0, 2.0, 1e6, -1e6, 1e-3];
    for d in 1..=(d_max + 1).min(4) {
        let vs = grid(&qvals, d);
        run.par_for(vs.len(), threads(), |ix, l| {
            let v = &vs[ix];
            for (mname, m) in [("linear", QuantizationMethod::Linear), ("minmax", QuantizationMethod::MinMax), ("symmetric", QuantizationMethod::Symmetric)] {
                l.eval();
                let q = quantize_vector(v, m);
                let case = json!({"method": mname, "v": v, "q": q});
                if q.len() != v.len() {
                    run.violation(&format!("quantize:{mname}:length"), case, format!("quantize_vector({v:?}) has {} components", q.len()));
                    continue;
                }
                if v.iter().any(|x| *x != v[0]) {
                    l.nontrivial(fnv(format!("{mname}{v:?}").as_bytes()));
                }
                let min = v.iter().copied().fold(f32::INFINITY, f32::min) as f64;
                let max = v.iter().copied().fold(f32::NEG_INFINITY, f32::max) as f64;
                let max_abs = v.iter().map(|x| x.abs()).fold(0.0f32, f32::max) as f64;
                let (recon, step): (Vec<f64>, f64) = if mname == "symmetric" {
                    let scale = (max_abs / 127.0) as f32;
                    (dequantize_vector_with_scale(&q, scale).iter().map(|x| *x as f64).collect(), max_abs / 127.0)
                } else {
                    let range = max - min;
                    (dequantize_vector(&q).iter().map(|x| min + ((*x as f64) + 128.0) / 255.0 * range).collect(), range / 255.0)
                };
                for (i, x) in v.iter().enumerate() {
                    let err = (recon[i] - *x as f64).abs();
                    // degenerate range: everything maps to 0, reconstruction is the constant itself
                    let bound = if step == 0.0 { if mname == "symmetric" { 0.0 } else { 128.0 / 255.0 * 0.0 } } else { step * 1.001 + 1e-9 };
                    let err = if step == 0.0 && mname != "symmetric" { (min - *x as f64).abs() } else { err };
                    if !(err <= bound) {
                        run.violation(&format!("quantize:{mname}:outside_step"), case.clone(), format!("{mname}: component {i} of {v:?} quantized to {} reconstructs to {} (error {err}, step {step})", q[i], recon[i]));
                        break;
                    }
                }
            }
        });
    }
    // probes
    let mut probe_cases = 0u64;
    for h in 0..=6usize {
        for bucket in 0..(1i64 << h) {
            for n in 0..=((1usize << h) + 2) {
                probe_cases += 1;
                let p = lsh_probes(bucket, h, n);
                if let Some(e) = probe_laws(&p, bucket, n) {
                    run.violation(&format!("probes:lsh_probes:{}", e.0), json!({"bucket": bucket, "h": h, "n": n, "probes": p}), format!("lsh_probes({bucket},{h},{n}) = {p:?}: {}", e.1));
                }
            }
        }
    }
    let dist_pool: Vec<Vec<f64>> = vec![vec![], vec![0.5], vec![0.3, 0.1], vec![0.1, 0.1, 0.1], vec![0.9, 0.0, 0.4, 0.2], vec![f64::NAN, 0.2, 0.1], vec![3.0, 2.0, 1.0, 0.5, 0.25]];
    for dv in &dist_pool {
        for bucket in 0..(1i64 << dv.len()) {
            for n in 0..=((1usize << dv.len()) + 2) {
                probe_cases += 1;
                let p = lsh_probes_ranked(bucket, dv, n);
                if let Some(e) = probe_laws(&p, bucket, n) {
                    run.violation(&format!("probes:lsh_probes_ranked:{}", e.0), json!({"bucket": bucket, "distances": format!("{dv:?}"), "n": n, "probes": p}), format!("lsh_probes_ranked({bucket},{dv:?},{n}) = {p:?}: {}", e.1));
                }
            }
        }
    }
    reset_cache();
    for v in grid(&[-1.0, 0.0, 0.5, 2.0], 2) {
        for h in [1usize, 3, 5] {
            for n in 0..=(1usize << h) + 1 {
                probe_cases += 1;
                let b = lsh_bucket(&v, 0, h);
                let p = lsh_multi_probe(&v, 0, h, n);
                if let Some(e) = probe_laws(&p, b, n) {
                    run.violation(&format!("probes:lsh_multi_probe:{}", e.0), json!({"v": v, "h": h, "n": n, "probes": p}), format!("lsh_multi_probe({v:?},0,{h},{n}) = {p:?} (bucket {b}): {}", e.1));
                }
            }
        }
    }
    run.add("evaluations_probe_cases", probe_cases);
    run.evaluations.fetch_add(probe_cases, std::sync::atomic::Ordering::Relaxed);

    // sequential cache leg (single thread: the cache is process-global)
    let calls = bucket_calls();
    reset_cache();
    let reference: Vec<i64> = calls
        .iter()
        .map(|c| {
            reset_cache();
            call_bucket(c)
        })
        .collect();
    run.sample(json!({"bucket_calls": calls.iter().map(|c| format!("v={:?}{:?} table={} planes={}", c.v, c.v8, c.t, c.h)).collect::<Vec<_>>(), "reference_buckets": reference}));
    let alpha = c_alpha();
    let depth = if run.quick() { 4 } else { 5 };
    let mut seqs = 0u64;
    let mut steps = 0u64;
    let mut completed = 0;
    let mut nontrivial_local: BTreeSet<u64> = BTreeSet::new();
    'outer: for len in 1..=depth {
        let total = alpha.len().pow(len as u32);
        for ix in 0..total {
            if ix % 4096 == 0 && run.out_of_time() {
                run.capped.store(true, std::sync::atomic::Ordering::Relaxed);
                break 'outer;
            }
            let mut idx = ix;
            let mut h = vec![alpha[0]; len];
            for p in (0..len).rev() {
                h[p] = alpha[idx % alpha.len()];
                idx /= alpha.len();
            }
            reset_cache();
            let r = catch_unwind(AssertUnwindSafe(|| -> Option<(String, String)> {
                for (step, o) in h.iter().enumerate() {
                    match o {
                        COp::Bucket(i) => {
                            let got = call_bucket(&calls[*i]);
                            if got != reference[*i] {
                                return Some(("lsh_cache:bucket_depends_on_cache_state".into(), format!("sequence {h:?}: step {step} bucket call #{i} returned {got} but {} in a freshly cleared cache", reference[*i])));
                            }
                        }
                        COp::Clear => clear_lsh_cache(),
                        COp::Cfg(i) => configure_lsh_cache_size(cfg_sizes()[*i]),
                        COp::Prewarm(i) => {
                            let (t, hh, d) = prewarms()[*i];
                            prewarm_lsh_cache(t, hh, d)
                        }
                    }
                }
                None
            }));
            seqs += 1;
            steps += len as u64;
            if h.iter().filter(|o| matches!(o, COp::Bucket(_))).count() >= 1 && h.iter().any(|o| !matches!(o, COp::Bucket(_))) {
                nontrivial_local.insert(ix as u64 * 8 + len as u64);
            }
            match r {
                Ok(None) => {}
                Ok(Some((c, d))) => run.violation(&c, json!({"sequence": format!("{h:?}")}), d),
                Err(p) => run.violation("lsh_cache:panic", json!({"sequence": format!("{h:?}")}), format!("sequence {h:?}: panic {}", crate::e1::panic_msg(&p))),
            }
        }
        completed = len;
    }
    reset_cache();
    cache_interleavings(&run, &calls, &reference);
    reset_cache();
    run.evaluations.fetch_add(seqs, std::sync::atomic::Ordering::Relaxed);
    run.nontrivial.lock().unwrap().extend(nontrivial_local.iter().map(|x| x ^ 0xabcdef0000));
    run.put("cache_sequences", json!(seqs));
    run.put("cache_steps", json!(steps));
    run.put("cache_depth_completed", json!(completed));
    run.put("cache_alphabet", json!(alpha.len()));
    run.finish()
}

/// E4 leg: 2-3 real threads on the process-global hyperplane cache, every schedule up to a preemption bound at the
/// cache's lock acquisitions; every bucket call must return the reference value whatever the interleaving.
fn cache_interleavings(run: &Run, calls: &[Call], reference: &[i64]) {
    use crate::e4::{execute, explore, Body, ExecError, Point};
    use std::sync::{Arc, Mutex};
    let b = COp::Bucket;
    // (name, initial cache size, prewarmed keys, threads)
    let scenarios: Vec<(&str, usize, Vec<usize>, Vec<Vec<COp>>)> = vec![
        ("same_key_miss_race", 64, vec![], vec![vec![b(0)], vec![b(1)], vec![b(0)]]),
        ("lookup_vs_clear", 64, vec![0], vec![vec![b(0), b(1)], vec![COp::Clear, b(0)]]),
        ("eviction_with_capacity_one", 1, vec![0], vec![vec![b(0), b(3)], vec![b(4), b(0)]]),
        ("shrink_while_filling", 64, vec![0, 2], vec![vec![b(3), b(0)], vec![COp::Cfg(1), b(4)], vec![b(2)]]),
        ("capacity_zero", 0, vec![], vec![vec![b(0), b(0)], vec![b(3)], vec![COp::Cfg(0), b(1)]]),
        ("int8_twin_shares_entries", 2, vec![], vec![vec![b(6), b(0)], vec![b(0), b(6)], vec![COp::Clear]]),
        ("dimension_variants_of_one_table", 1, vec![], vec![vec![b(0), b(2)], vec![b(2), b(0)], vec![COp::Prewarm(1)]]),
    ];
    let bound = if run.quick() { 2 } else { 3 };
    let deadline = run.start + std::time::Duration::from_secs_f64(run.budget_s);
    let (mut total_sched, mut total_steps, mut min_bound) = (0u64, 0u64, usize::MAX);
    for (name, size, warm, threads) in &scenarios {
        let calls_arc: Arc<Vec<(Vec<f32>, Option<Vec<i8>>, i64, usize)>> = Arc::new(calls.iter().map(|c| (c.v.clone(), c.v8.clone(), c.t, c.h)).collect());
        let mut run_one = |prefix: &[usize], _b: usize| -> Result<Vec<Point>, ExecError> {
            configure_lsh_cache_size(64);
            clear_lsh_cache();
            for w in warm {
                let _ = call_bucket(&calls[*w]);
            }
            configure_lsh_cache_size(*size);
            let results: Arc<Mutex<Vec<(usize, usize, usize, i64)>>> = Arc::new(Mutex::new(vec![]));
            let mut bodies: Vec<Body> = vec![];
            for (tid, ops) in threads.iter().enumerate() {
                let (ops, results, calls_arc) = (ops.clone(), results.clone(), calls_arc.clone());
                bodies.push(Box::new(move || {
                    for (k, o) in ops.iter().enumerate() {
                        match o {
                            COp::Bucket(i) => {
                                let (v, v8, t, h) = &calls_arc[*i];
                                let got = match v8 {
                                    Some(v8) => lsh_bucket_int8(v8, *t, *h),
                                    None => lsh_bucket(v, *t, *h),
                                };
                                results.lock().unwrap().push((tid, k, *i, got));
                            }
                            COp::Clear => clear_lsh_cache(),
                            COp::Cfg(i) => configure_lsh_cache_size(cfg_sizes()[*i]),
                            COp::Prewarm(i) => {
                                let (t, hh, d) = prewarms()[*i];
                                prewarm_lsh_cache(t, hh, d)
                            }
                        }
                    }
                }));
            }
            let points = execute(bodies, prefix, &mut |_| {})?;
            run.evaluations.fetch_add(1, std::sync::atomic::Ordering::Relaxed);
            for (tid, k, i, got) in results.lock().unwrap().iter() {
                if *got != reference[*i] {
                    let choices: Vec<usize> = points.iter().map(|p| p.enabled.iter().position(|x| *x == p.chosen).unwrap()).collect();
                    run.violation(
                        &format!("lsh_cache:interleaving:{name}:bucket_depends_on_concurrent_use"),
                        json!({"scenario": name, "schedule": choices, "sites": points.iter().map(|p| format!("{}@{}", p.chosen, p.site)).collect::<Vec<_>>()}),
                        format!("scenario {name} (cache size {size}, threads {threads:?}): thread {tid} op {k} bucket call #{i} returned {got}, {} in a freshly cleared cache; schedule {}", reference[*i], points.iter().map(|p| format!("{}@{}", p.chosen, p.site)).collect::<Vec<_>>().join(" -> ")),
                    );
                }
            }
            Ok(points)
        };
        match explore(bound, deadline, &mut run_one) {
            Ok(st) => {
                total_sched += st.schedules;
                total_steps += st.steps;
                min_bound = min_bound.min(st.max_preemptions_completed);
                if st.deadlocks > 0 {
                    run.violation(&format!("lsh_cache:interleaving:{name}:deadlock"), json!({"scenario": name}), format!("{} schedules of cache scenario {name} end with no enabled participant", st.deadlocks));
                }
                if st.capped {
                    run.capped.store(true, std::sync::atomic::Ordering::Relaxed);
                }
            }
            Err(e) => run.machinery_error(format!("cache scenario {name}: {e:?}")),
        }
    }
    run.put("cache_interleavings", json!({"scenarios": scenarios.len(), "schedules": total_sched, "scheduling_points_visited": total_steps, "preemption_bound": bound, "preemption_bound_completed_in_every_scenario": if min_bound == usize::MAX { 0 } else { min_bound },
        "rule": "seven scenarios of 2-3 real threads (bucket calls on colliding and distinct keys, clear, resize to 0/1, prewarm) on the process-global hyperplane cache, ALL schedules with at most B preemptions at the cache's four lock acquisitions (lookup read, miss write, clear, configure); every bucket call must return the value computed in a freshly cleared cache"}));
    run.put("schedules", json!(total_sched));
}

fn probe_laws(p: &[i64], bucket: i64, n: usize) -> Option<(&'static str, String)> {
    if n == 0 {
        return if p.is_empty() { None } else { Some(("too_many", "n=0 must give no probes".into())) };
    }
    if p.len() > n {
        return Some(("too_many", format!("{} probes for n={n}", p.len())));
    }
    if p.first() != Some(&bucket) {
        return Some(("does_not_start_at_bucket", format!("first probe {:?}", p.first())));
    }
    let set: BTreeSet<i64> = p.iter().copied().collect();
    if set.len() != p.len() {
        return Some(("duplicate_probe", "a bucket appears twice".into()));
    }
    let hd: Vec<u32> = p.iter().map(|x| (x ^ bucket).count_ones()).collect();
    if hd.windows(2).any(|w| w[0] > w[1]) {
        return Some(("hamming_distance_decreases", format!("Hamming distances {hd:?}")));
    }
    None
}
