//! Ownership of OS entropy (DESIGN §1.5): the LD_PRELOAD shim's `getrandom` hands the harness-chosen
//! 32-byte seed to hnsw_rs's level generator; this module predicts the level sequence a seed produces
//! (same rand version, same formula) and validates that prediction against hnsw_rs itself.

use rand09::distr::Uniform;
use rand09::prelude::*;
use rand09::rngs::StdRng;

type PlanFn = unsafe extern "C" fn(*const u8, libc::c_long, *const u8);
type ClearFn = unsafe extern "C" fn();
type CallsFn = unsafe extern "C" fn() -> libc::c_long;

fn sym(name: &str) -> *mut libc::c_void {
    let c = std::ffi::CString::new(name).unwrap();
    unsafe { libc::dlsym(libc::RTLD_DEFAULT, c.as_ptr()) }
}

pub fn shim_loaded() -> bool {
    !sym("verif_entropy_plan").is_null()
}

/// Install the plan for the calling thread. Returns false when the shim is not preloaded.
pub fn plan(benign: &[u8; 32], special: Option<(usize, &[u8; 32])>) -> bool {
    let p = sym("verif_entropy_plan");
    if p.is_null() {
        return false;
    }
    let f: PlanFn = unsafe { std::mem::transmute(p) };
    match special {
        Some((call, s)) => unsafe { f(benign.as_ptr(), call as libc::c_long, s.as_ptr()) },
        None => unsafe { f(benign.as_ptr(), -1, std::ptr::null()) },
    }
    true
}
pub fn clear() {
    let p = sym("verif_entropy_clear");
    if !p.is_null() {
        let f: ClearFn = unsafe { std::mem::transmute(p) };
        unsafe { f() }
    }
}
/// Number of 32-byte entropy requests served on this thread since the plan was installed.
pub fn calls() -> usize {
    let p = sym("verif_entropy_calls");
    if p.is_null() {
        return 0;
    }
    let f: CallsFn = unsafe { std::mem::transmute(p) };
    unsafe { f() as usize }
}

/// Levels hnsw_rs's LayerGenerator draws from this seed (scale = level_scale_factor / ln(m)).
pub fn levels(seed: &[u8; 32], m: usize, scale_factor: f64, maxlevel: usize, n: usize) -> Vec<usize> {
    let mut rng = StdRng::from_seed(*seed);
    let unif = Uniform::<f64>::new(0., 1.).unwrap();
    let scale = scale_factor / (m as f64).ln();
    let mut out = vec![];
    for _ in 0..n {
        let xsi: f64 = rng.sample(unif);
        let level = -xsi.ln() * scale;
        let mut ul = level.floor() as usize;
        if ul >= maxlevel {
            ul = rng.sample(Uniform::<usize>::new(0, maxlevel).unwrap());
        }
        out.push(ul);
    }
    out
}

fn seed_of(counter: u64) -> [u8; 32] {
    let mut s = [0u8; 32];
    s[..8].copy_from_slice(&counter.to_le_bytes());
    s[8..16].copy_from_slice(&(counter.wrapping_mul(0x9E3779B97F4A7C15)).to_le_bytes());
    s
}

pub struct SeedMenu {
    /// all of the first `horizon` draws are level 0
    pub benign: [u8; 32],
    /// special[j]: draws 0..j are level 0, draw j is level >= 1
    pub special: Vec<[u8; 32]>,
}

/// Deterministic search for the seed menu (a few hundred thousand ChaCha initialisations).
pub fn seed_menu(m: usize, scale_factor: f64, maxlevel: usize, horizon: usize, nspecial: usize) -> SeedMenu {
    let mut c = 1u64;
    let benign = loop {
        let s = seed_of(c);
        c += 1;
        if levels(&s, m, scale_factor, maxlevel, horizon).iter().all(|l| *l == 0) {
            break s;
        }
    };
    let mut special = vec![];
    for j in 0..nspecial {
        loop {
            let s = seed_of(c);
            c += 1;
            let l = levels(&s, m, scale_factor, maxlevel, horizon);
            if l[..j].iter().all(|x| *x == 0) && l[j] >= 1 && l[j + 1..].iter().all(|x| *x == 0) {
                special.push(s);
                break;
            }
        }
    }
    SeedMenu { benign, special }
}

/// Conformance of the level model: build a real hnsw_rs graph under the planned seed and compare the
/// maximum level it reports with the prediction. Err = the model of the entropy path is wrong (machinery error).
pub fn validate_model(menu: &SeedMenu, m: usize, scale_factor: f64, maxlevel: usize) -> Result<usize, String> {
    use hnsw_rs::prelude::*;
    let pts: Vec<Vec<f32>> = (0..6).map(|i| vec![i as f32, (i * i) as f32]).collect();
    let mut checked = 0;
    let mut seeds: Vec<(&[u8; 32], String)> = vec![(&menu.benign, "benign".into())];
    for (j, s) in menu.special.iter().enumerate() {
        seeds.push((s, format!("special[{j}]")));
    }
    for (seed, name) in seeds {
        if !plan(seed, None) {
            return Err("shim not loaded (LD_PRELOAD=/verif/shim/fsshim.so missing)".into());
        }
        let mut h: Hnsw<f32, DistL2> = Hnsw::new(m, pts.len(), maxlevel, 50, DistL2);
        h.modify_level_scale(scale_factor);
        let served = calls();
        for (i, p) in pts.iter().enumerate() {
            h.insert((p, i));
        }
        clear();
        if served != 1 {
            return Err(format!("expected exactly one 32-byte entropy request per graph, saw {served}"));
        }
        let predicted = levels(seed, m, scale_factor, maxlevel, pts.len());
        let want = *predicted.iter().max().unwrap();
        let got = h.get_max_level_observed() as usize;
        if got != want {
            return Err(format!("seed {name}: predicted levels {predicted:?} (max {want}) but hnsw_rs observed max level {got}"));
        }
        checked += 1;
    }
    Ok(checked)
}
