//! Exhaustive program generators (families F1..F6 of DESIGN.md §1.4 E1).
//! Every family is a complete enumeration within its stated bound; programs
//! are canonical up to variable renaming (variables are introduced in order).

use crate::r1::*;
use std::collections::BTreeSet;

pub fn atom(rel: &str, args: &[Term]) -> Atom {
    Atom {
        rel: rel.to_string(),
        args: args.to_vec(),
    }
}
pub fn pos(rel: &str, args: &[Term]) -> Lit {
    Lit::Pos(atom(rel, args))
}
pub fn neg(rel: &str, args: &[Term]) -> Lit {
    Lit::Neg(atom(rel, args))
}
pub fn clause(rel: &str, head: &[Term], body: Vec<Lit>) -> Clause {
    Clause {
        rel: rel.to_string(),
        head: head.iter().cloned().map(HeadArg::T).collect(),
        body,
    }
}
pub const X: Term = Var(0);
pub const Y: Term = Var(1);
pub const Z: Term = Var(2);
pub const W: Term = Var(3);

#[derive(Clone, Debug)]
pub struct GenProg {
    pub family: &'static str,
    pub prog: Program,
}

/// All argument vectors of `arity` over variables (introduced in canonical order
/// continuing from `next_var`), the constants and optionally the wildcard.
fn arg_vectors(arity: usize, next_var: u8, max_var: u8, consts: &[i64], wild: bool) -> Vec<(Vec<Term>, u8)> {
    let mut out: Vec<(Vec<Term>, u8)> = vec![(vec![], next_var)];
    for _ in 0..arity {
        let mut nx = vec![];
        for (args, nv) in &out {
            // existing variables
            for v in 0..*nv {
                let mut a = args.clone();
                a.push(Var(v));
                nx.push((a, *nv));
            }
            // one fresh variable
            if *nv < max_var {
                let mut a = args.clone();
                a.push(Var(*nv));
                nx.push((a, *nv + 1));
            }
            for c in consts {
                let mut a = args.clone();
                a.push(Const(*c));
                nx.push((a, *nv));
            }
            if wild {
                let mut a = args.clone();
                a.push(Wild);
                nx.push((a, *nv));
            }
        }
        out = nx;
    }
    out
}

/// All canonical positive bodies with 1..=max_atoms atoms over `rels`.
/// Atom order matters to the engine (join order), so sequences are kept ordered,
/// except that exact duplicates of an atom are not generated.
pub fn bodies(rels: &[(&str, usize)], max_atoms: usize, max_var: u8, consts: &[i64], wild: bool) -> Vec<(Vec<Atom>, u8)> {
    let mut out = vec![];
    let mut level: Vec<(Vec<Atom>, u8)> = vec![(vec![], 0)];
    for _ in 0..max_atoms {
        let mut nx = vec![];
        for (atoms, nv) in &level {
            for (r, ar) in rels {
                for (args, nv2) in arg_vectors(*ar, *nv, max_var, consts, wild) {
                    // an atom with no variable at all is allowed only as a non-first atom guard; skip all-const/wild atoms
                    if !args.iter().any(|t| matches!(t, Var(_))) {
                        continue;
                    }
                    let a = atom(r, &args);
                    if atoms.contains(&a) {
                        continue;
                    }
                    // connectedness: later atoms must share a variable with earlier ones (cross products
                    // are legal but blow up the space; they are covered by a dedicated template)
                    if !atoms.is_empty() {
                        let shares = args.iter().any(|t| matches!(t, Var(v) if *v < *nv));
                        if !shares {
                            continue;
                        }
                    }
                    let mut at = atoms.clone();
                    at.push(a);
                    nx.push((at, nv2));
                }
            }
        }
        out.extend(nx.iter().cloned());
        level = nx;
    }
    out
}

/// Head argument vectors over the bound variables: all ordered selections without
/// repetition of 1..=max_arity variables, plus (if `with_const`) variants where one position is a constant,
/// plus repeated-variable heads.
pub fn heads(nvars: u8, max_arity: usize, with_const: bool, with_repeat: bool) -> Vec<Vec<Term>> {
    let mut out: BTreeSet<Vec<Term>> = BTreeSet::new();
    fn rec(nvars: u8, max: usize, cur: &mut Vec<Term>, out: &mut BTreeSet<Vec<Term>>) {
        if !cur.is_empty() {
            out.insert(cur.clone());
        }
        if cur.len() == max {
            return;
        }
        for v in 0..nvars {
            if cur.contains(&Var(v)) {
                continue;
            }
            cur.push(Var(v));
            rec(nvars, max, cur, out);
            cur.pop();
        }
    }
    rec(nvars, max_arity, &mut vec![], &mut out);
    let base: Vec<Vec<Term>> = out.iter().cloned().collect();
    if with_const {
        for h in &base {
            if h.len() < max_arity {
                let mut a = h.clone();
                a.push(Const(7));
                out.insert(a);
                let mut b = vec![Const(7)];
                b.extend(h.iter().cloned());
                out.insert(b);
            }
        }
    }
    if with_repeat {
        for v in 0..nvars {
            out.insert(vec![Var(v), Var(v)]);
        }
    }
    out.into_iter().collect()
}

fn q(head: &[Term], body: Vec<Lit>) -> Clause {
    clause("q", head, body)
}

pub struct Bounds {
    pub quick: bool,
}

/// F1: one conjunctive query clause.
pub fn f1(b: &Bounds) -> Vec<GenProg> {
    let rels: &[(&str, usize)] = &[("e", 2), ("f", 2), ("n", 1)];
    let (max_atoms, consts, max_head): (usize, &[i64], usize) = if b.quick { (2, &[1], 2) } else { (3, &[1, 2], 3) };
    let mut out = vec![];
    for (atoms, nv) in bodies(rels, max_atoms, 3, consts, true) {
        // thorough 3-atom bodies: restrict to constant-free, wildcard-free to keep the space tractable
        if atoms.len() == 3 && atoms.iter().any(|a| a.args.iter().any(|t| !matches!(t, Var(_)))) {
            continue;
        }
        for h in heads(nv, max_head, atoms.len() == 1, atoms.len() == 1) {
            let body = atoms.iter().cloned().map(Lit::Pos).collect();
            out.push(GenProg {
                family: "F1",
                prog: Program { clauses: vec![q(&h, body)] },
            });
        }
    }
    out
}

fn query_shapes2(idb: &str) -> Vec<Clause> {
    vec![
        q(&[X, Y], vec![pos(idb, &[X, Y])]),
        q(&[Y, X], vec![pos(idb, &[X, Y])]),
        q(&[X], vec![pos(idb, &[X, Wild])]),
        q(&[X], vec![pos(idb, &[Const(1), X])]),
        q(&[X], vec![pos(idb, &[X, Const(2)])]),
        q(&[X], vec![pos(idb, &[X, X])]),
    ]
}

/// F2: an IDB head with 2..3 clauses (scan ∪ join, join ∪ join, ...), then a query reading it.
pub fn f2(b: &Bounds) -> Vec<GenProg> {
    let rels: &[(&str, usize)] = &[("e", 2), ("f", 2)];
    let mut pool: Vec<(Vec<Atom>, u8)> = bodies(rels, 2, 3, &[], false);
    if b.quick {
        // quick bound: join clauses over e only (scan clauses over e and f)
        pool.retain(|(atoms, _)| atoms.len() == 1 || atoms.iter().all(|a| a.rel == "e"));
    }
    // clause candidates: binary head over body variables
    let mut cands: Vec<Clause> = vec![];
    for (atoms, nv) in &pool {
        for h in heads(*nv, 2, false, false) {
            if h.len() != 2 {
                continue;
            }
            cands.push(clause("a", &h, atoms.iter().cloned().map(Lit::Pos).collect()));
        }
    }
    // add a constant-bearing and a unary-relation clause for variety
    cands.push(clause("a", &[X, Y], vec![pos("e", &[X, Y]), pos("n", &[X])]));
    cands.push(clause("a", &[X, Y], vec![pos("e", &[X, Y]), pos("f", &[Y, Const(1)])]));
    let mut out = vec![];
    let queries = query_shapes2("a");
    let nq = if b.quick { 2 } else { queries.len() };
    for i in 0..cands.len() {
        for j in 0..cands.len() {
            if i == j {
                continue;
            }
            // quick: at least one of the two clauses is a single-atom scan or both are joins over e only
            if b.quick {
                let la = cands[i].body.len();
                let lb = cands[j].body.len();
                if la == 2 && lb == 2 && (i + j) % 7 != 0 {
                    // bounded sub-family: every 7th join∪join pair (deterministic, stated in evidence rule)
                    continue;
                }
            }
            for qc in queries.iter().take(nq) {
                out.push(GenProg {
                    family: "F2",
                    prog: Program {
                        clauses: vec![cands[i].clone(), cands[j].clone(), qc.clone()],
                    },
                });
            }
        }
    }
    if !b.quick {
        // three-clause heads over the single-atom and e-only join candidates
        let small: Vec<&Clause> = cands
            .iter()
            .filter(|c| c.body.iter().all(|l| matches!(l, Lit::Pos(a) if a.rel == "e")) || c.body.len() == 1)
            .collect();
        for i in 0..small.len() {
            for j in (i + 1)..small.len() {
                for k in (j + 1)..small.len() {
                    out.push(GenProg {
                        family: "F2",
                        prog: Program {
                            clauses: vec![small[i].clone(), small[j].clone(), small[k].clone(), queries[0].clone()],
                        },
                    });
                }
            }
        }
    }
    out
}

/// F3: stratified negation over EDB or a lower IDB layer.
pub fn f3(b: &Bounds) -> Vec<GenProg> {
    let mut out = vec![];
    // positive parts
    let pos_bodies: Vec<(Vec<Lit>, Vec<Term>)> = vec![
        (vec![pos("n", &[X])], vec![X]),
        (vec![pos("e", &[X, Y])], vec![X, Y]),
        (vec![pos("e", &[X, Y]), pos("n", &[Y])], vec![X, Y]),
        (vec![pos("e", &[X, Y]), pos("e", &[Y, Z])], vec![X, Y, Z]),
    ];
    // lower IDB layers to negate
    let layers: Vec<(&str, Vec<Clause>, usize)> = vec![
        ("-", vec![], 0),
        ("p1", vec![clause("p", &[X], vec![pos("m", &[X])])], 1),
        ("p1b", vec![clause("p", &[X], vec![pos("e", &[X, Wild])])], 1),
        ("p2", vec![clause("p", &[X, Y], vec![pos("f", &[X, Y])])], 2),
        (
            "p2u",
            vec![clause("p", &[X, Y], vec![pos("f", &[X, Y])]), clause("p", &[X, Y], vec![pos("e", &[Y, X])])],
            2,
        ),
        (
            "p2j",
            vec![clause("p", &[X, Z], vec![pos("e", &[X, Y]), pos("e", &[Y, Z])])],
            2,
        ),
        (
            "p2n",
            vec![clause("p", &[X, Y], vec![pos("e", &[X, Y]), neg("m", &[X])])],
            2,
        ),
    ];
    for (body, vars) in &pos_bodies {
        for (_lname, lower, ar) in &layers {
            // negated atom candidates
            let mut negs: Vec<Lit> = vec![];
            let cand_terms: Vec<Term> = vars.iter().cloned().chain([Const(1), Wild]).collect();
            if *ar == 0 {
                // EDB negation: m/1 and f/2
                for t in &cand_terms {
                    if *t != Wild {
                        negs.push(neg("m", &[t.clone()]));
                    }
                }
                for t1 in &cand_terms {
                    for t2 in &cand_terms {
                        if matches!(t1, Var(_)) || matches!(t2, Var(_)) {
                            negs.push(neg("f", &[t1.clone(), t2.clone()]));
                        }
                    }
                }
            } else if *ar == 1 {
                for t in vars {
                    negs.push(neg("p", &[t.clone()]));
                }
            } else {
                for t1 in &cand_terms {
                    for t2 in &cand_terms {
                        if matches!(t1, Var(_)) || matches!(t2, Var(_)) {
                            negs.push(neg("p", &[t1.clone(), t2.clone()]));
                        }
                    }
                }
            }
            if b.quick && negs.len() > 8 {
                // quick: variable-only negated atoms plus one constant and one wildcard form
                let mut keep = vec![];
                let mut seen_c = false;
                let mut seen_w = false;
                for l in &negs {
                    if let Lit::Neg(a) = l {
                        let has_c = a.args.iter().any(|t| matches!(t, Const(_)));
                        let has_w = a.args.iter().any(|t| *t == Wild);
                        if !has_c && !has_w {
                            keep.push(l.clone());
                        } else if has_c && !has_w && !seen_c {
                            seen_c = true;
                            keep.push(l.clone());
                        } else if has_w && !has_c && !seen_w {
                            seen_w = true;
                            keep.push(l.clone());
                        }
                    }
                }
                negs = keep;
            }
            // the engine documents that a negated atom must share a variable with the positive body
            negs.retain(|l| matches!(l, Lit::Neg(a) if a.args.iter().any(|t| matches!(t, Var(_)))));
            for ng in negs {
                // negation first / last in the body (position matters to the IR builder)
                for neg_first in [false, true] {
                    if neg_first && b.quick {
                        continue;
                    }
                    let mut bd = body.clone();
                    if neg_first {
                        bd.insert(0, ng.clone());
                    } else {
                        bd.push(ng.clone());
                    }
                    let head: Vec<Term> = vars.iter().take(2).cloned().collect();
                    let mut clauses = lower.clone();
                    clauses.push(q(&head, bd));
                    out.push(GenProg {
                        family: "F3",
                        prog: Program { clauses },
                    });
                }
            }
        }
    }
    // double negation layer: r <- n, !p ; q <- n, !r
    out.push(GenProg {
        family: "F3",
        prog: Program {
            clauses: vec![
                clause("p", &[X], vec![pos("m", &[X])]),
                clause("r", &[X], vec![pos("n", &[X]), neg("p", &[X])]),
                q(&[X], vec![pos("n", &[X]), neg("r", &[X])]),
            ],
        },
    });
    out
}

/// F4: recursion — closure variants, extra clauses, bound queries, mutual recursion, recursion + negation.
pub fn f4(b: &Bounds) -> Vec<GenProg> {
    let mut out = vec![];
    let base: Vec<Clause> = vec![
        clause("p", &[X, Y], vec![pos("e", &[X, Y])]),
        clause("p", &[Y, X], vec![pos("e", &[X, Y])]),
    ];
    let steps: Vec<Clause> = vec![
        clause("p", &[X, Z], vec![pos("p", &[X, Y]), pos("e", &[Y, Z])]),
        clause("p", &[X, Z], vec![pos("e", &[X, Y]), pos("p", &[Y, Z])]),
        clause("p", &[X, Z], vec![pos("p", &[X, Y]), pos("p", &[Y, Z])]),
        clause("p", &[X, Z], vec![pos("p", &[X, Y]), pos("f", &[Y, Z])]),
        clause("p", &[Y, X], vec![pos("p", &[X, Y])]),
        clause("p", &[X, Z], vec![pos("p", &[X, Y]), pos("e", &[Y, Z]), pos("n", &[Z])]),
    ];
    let extras: Vec<Option<Clause>> = vec![
        None,
        Some(clause("p", &[X, Y], vec![pos("f", &[X, Y])])),
        Some(clause("p", &[X, X], vec![pos("n", &[X])])),
    ];
    let queries = query_shapes2("p");
    for bc in &base {
        for st in &steps {
            for ex in &extras {
                for (qi, qc) in queries.iter().enumerate() {
                    if b.quick && ex.is_some() && qi >= 2 && qi != 3 {
                        continue;
                    }
                    // all clause orders of the IDB part are C04's business; here base-first and step-first
                    for step_first in [false, true] {
                        if step_first && b.quick && qi != 0 {
                            continue;
                        }
                        let mut cl = if step_first { vec![st.clone(), bc.clone()] } else { vec![bc.clone(), st.clone()] };
                        if let Some(e) = ex {
                            cl.push(e.clone());
                        }
                        cl.push(qc.clone());
                        out.push(GenProg {
                            family: "F4",
                            prog: Program { clauses: cl },
                        });
                    }
                }
            }
        }
    }
    // unary reachability with bound start
    out.push(GenProg {
        family: "F4",
        prog: Program {
            clauses: vec![
                clause("r", &[X], vec![pos("n", &[X])]),
                clause("r", &[Y], vec![pos("r", &[X]), pos("e", &[X, Y])]),
                q(&[X], vec![pos("r", &[X])]),
            ],
        },
    });
    // mutual recursion between two heads
    let mut_templates: Vec<Vec<Clause>> = vec![
        vec![
            clause("a", &[X, Y], vec![pos("e", &[X, Y])]),
            clause("b", &[X, Z], vec![pos("a", &[X, Y]), pos("e", &[Y, Z])]),
            clause("a", &[X, Z], vec![pos("b", &[X, Y]), pos("e", &[Y, Z])]),
        ],
        vec![
            clause("a", &[X, Y], vec![pos("e", &[X, Y])]),
            clause("b", &[X, Y], vec![pos("a", &[X, Y])]),
            clause("a", &[X, Z], vec![pos("b", &[X, Y]), pos("e", &[Y, Z])]),
        ],
        vec![
            clause("a", &[X], vec![pos("n", &[X])]),
            clause("b", &[Y], vec![pos("a", &[X]), pos("e", &[X, Y])]),
            clause("a", &[Y], vec![pos("b", &[X]), pos("f", &[X, Y])]),
        ],
        vec![
            clause("a", &[X, Y], vec![pos("e", &[X, Y])]),
            clause("b", &[X, Y], vec![pos("f", &[X, Y])]),
            clause("a", &[X, Z], vec![pos("b", &[X, Y]), pos("a", &[Y, Z])]),
            clause("b", &[X, Z], vec![pos("a", &[X, Y]), pos("b", &[Y, Z])]),
        ],
    ];
    for t in &mut_templates {
        let ar = t[0].head.len();
        for target in ["a", "b"] {
            let qs: Vec<Clause> = if ar == 2 {
                vec![q(&[X, Y], vec![pos(target, &[X, Y])]), q(&[X], vec![pos(target, &[Const(1), X])])]
            } else {
                vec![q(&[X], vec![pos(target, &[X])])]
            };
            for qc in qs {
                let mut cl = t.clone();
                cl.push(qc);
                out.push(GenProg {
                    family: "F4mut",
                    prog: Program { clauses: cl },
                });
            }
        }
    }
    // recursion + negation of a lower stratum, and negation of the recursive relation above it
    out.push(GenProg {
        family: "F4neg",
        prog: Program {
            clauses: vec![
                clause("p", &[X, Y], vec![pos("e", &[X, Y]), neg("m", &[X])]),
                clause("p", &[X, Z], vec![pos("p", &[X, Y]), pos("e", &[Y, Z]), neg("m", &[Z])]),
                q(&[X, Y], vec![pos("p", &[X, Y])]),
            ],
        },
    });
    out.push(GenProg {
        family: "F4neg",
        prog: Program {
            clauses: vec![
                clause("p", &[X, Y], vec![pos("e", &[X, Y])]),
                clause("p", &[X, Z], vec![pos("p", &[X, Y]), pos("e", &[Y, Z])]),
                q(&[X, Y], vec![pos("f", &[X, Y]), neg("p", &[X, Y])]),
            ],
        },
    });
    out.push(GenProg {
        family: "F4neg",
        prog: Program {
            clauses: vec![
                clause("p", &[X, Y], vec![pos("e", &[X, Y])]),
                clause("p", &[X, Z], vec![pos("p", &[X, Y]), pos("e", &[Y, Z])]),
                clause("u", &[X], vec![pos("n", &[X]), neg("p", &[X, X])]),
                q(&[X], vec![pos("u", &[X])]),
            ],
        },
    });
    out
}

/// F5: comparisons and arithmetic assignments on F1/F2-style bodies.
pub fn f5(b: &Bounds) -> Vec<GenProg> {
    let mut out = vec![];
    let bodies_: Vec<(Vec<Lit>, Vec<Term>)> = vec![
        (vec![pos("e", &[X, Y])], vec![X, Y]),
        (vec![pos("e", &[X, Y]), pos("f", &[Y, Z])], vec![X, Y, Z]),
        (vec![pos("e", &[X, Y]), pos("n", &[X])], vec![X, Y]),
    ];
    let consts: &[i64] = if b.quick { &[2] } else { &[1, 2, 3] };
    for (body, vars) in &bodies_ {
        // comparisons var-var and var-const
        let mut cmps: Vec<Lit> = vec![];
        for op in CMP_OPS {
            for i in 0..vars.len() {
                for j in 0..vars.len() {
                    if i != j && (i < j || !b.quick) {
                        cmps.push(Lit::Cmp(vars[i].clone(), op, vars[j].clone()));
                    }
                }
                for c in consts {
                    cmps.push(Lit::Cmp(vars[i].clone(), op, Const(*c)));
                    if !b.quick {
                        cmps.push(Lit::Cmp(Const(*c), op, vars[i].clone()));
                    }
                }
            }
        }
        for c in &cmps {
            let mut bd = body.clone();
            bd.push(c.clone());
            let head: Vec<Term> = vars.iter().take(2).cloned().collect();
            out.push(GenProg {
                family: "F5cmp",
                prog: Program { clauses: vec![q(&head, bd.clone())] },
            });
            if vars.len() == 3 {
                out.push(GenProg {
                    family: "F5cmp",
                    prog: Program {
                        clauses: vec![q(&[vars[0].clone(), vars[2].clone()], bd)],
                    },
                });
            }
        }
        // assignments
        let fresh = vars.len() as u8;
        let ops: &[ArOp] = &[ArOp::Add, ArOp::Sub, ArOp::Mul];
        for op in ops {
            for i in 0..vars.len() {
                let mut rhs: Vec<Term> = consts.iter().map(|c| Const(*c)).collect();
                for j in 0..vars.len() {
                    if j != i || !b.quick {
                        rhs.push(vars[j].clone());
                    }
                }
                for r in rhs {
                    let asg = Lit::Assign(fresh, vars[i].clone(), *op, r.clone());
                    let mut bd = body.clone();
                    bd.push(asg.clone());
                    out.push(GenProg {
                        family: "F5arith",
                        prog: Program {
                            clauses: vec![q(&[vars[0].clone(), Var(fresh)], bd.clone())],
                        },
                    });
                    // assignment followed by a comparison on the computed column
                    let mut bd2 = bd.clone();
                    bd2.push(Lit::Cmp(Var(fresh), CmpOp::Gt, Const(2)));
                    out.push(GenProg {
                        family: "F5arith",
                        prog: Program {
                            clauses: vec![q(&[Var(fresh), vars[0].clone()], bd2)],
                        },
                    });
                    // computed column through an intermediate IDB
                    if !b.quick || i == 0 {
                        out.push(GenProg {
                            family: "F5arith",
                            prog: Program {
                                clauses: vec![
                                    clause("a", &[vars[0].clone(), Var(fresh)], bd.clone()),
                                    q(&[X, Y], vec![pos("a", &[X, Y]), pos("e", &[X, Wild])]),
                                ],
                            },
                        });
                    }
                }
            }
        }
    }
    // union head with comparison in one clause
    out.push(GenProg {
        family: "F5cmp",
        prog: Program {
            clauses: vec![
                clause("a", &[X, Y], vec![pos("e", &[X, Y]), Lit::Cmp(X, CmpOp::Lt, Y)]),
                clause("a", &[X, Y], vec![pos("f", &[X, Y]), Lit::Cmp(X, CmpOp::Ge, Const(2))]),
                q(&[X, Y], vec![pos("a", &[X, Y])]),
            ],
        },
    });
    out
}

/// F6: non-recursive aggregates.
pub fn f6(b: &Bounds) -> Vec<GenProg> {
    let mut out = vec![];
    // (body, groupable vars, aggregatable vars)
    let bodies_: Vec<(Vec<Lit>, Vec<Term>, Vec<u8>)> = vec![
        (vec![pos("e", &[X, Y])], vec![X], vec![0, 1]),
        (vec![pos("e", &[X, Y])], vec![Y], vec![0, 1]),
        (vec![pos("e", &[X, Wild])], vec![], vec![0]),
        (vec![pos("e", &[Wild, X])], vec![], vec![0]),
        (vec![pos("e", &[X, Y]), pos("f", &[Y, Z])], vec![X], vec![1, 2]),
        (vec![pos("e", &[X, Y]), pos("f", &[Y, Z])], vec![Z], vec![0, 1]),
        (vec![pos("e", &[X, Y]), pos("f", &[X, Z])], vec![X], vec![1, 2]),
        (vec![pos("e", &[X, Y]), pos("f", &[Wild, Z])], vec![X], vec![1, 2]),
        (vec![pos("e", &[X, Y]), Lit::Cmp(Y, CmpOp::Gt, Const(1))], vec![X], vec![1]),
        (vec![pos("e", &[X, Y]), neg("m", &[Y])], vec![X], vec![1]),
        (vec![pos("e", &[X, Y]), Lit::Assign(2, X, ArOp::Add, Y)], vec![X], vec![2]),
        (vec![pos("n", &[X])], vec![], vec![0]),
    ];
    for (body, gvars, avars) in &bodies_ {
        for ag in AGGS {
            for av in avars {
                // group variants: no group var, one group var (first), group var after the aggregate
                let mut head_variants: Vec<Vec<HeadArg>> = vec![vec![HeadArg::A(ag, *av)]];
                if let Some(g) = gvars.first() {
                    if *g != Var(*av) {
                        head_variants.push(vec![HeadArg::T(g.clone()), HeadArg::A(ag, *av)]);
                        // (quick: for two of the six functions; the column order of the answer is what matters)
                        if !b.quick || matches!(ag, Agg::Sum | Agg::Min) {
                            head_variants.push(vec![HeadArg::A(ag, *av), HeadArg::T(g.clone())]);
                        }
                    }
                }
                for hv in head_variants {
                    let ar = hv.len();
                    let agg_clause = Clause {
                        rel: "g".into(),
                        head: hv,
                        body: body.clone(),
                    };
                    let qc = if ar == 1 { q(&[X], vec![pos("g", &[X])]) } else { q(&[X, Y], vec![pos("g", &[X, Y])]) };
                    // direct: the aggregate clause is the query itself
                    let mut direct = agg_clause.clone();
                    direct.rel = "q".into();
                    out.push(GenProg {
                        family: "F6",
                        prog: Program { clauses: vec![direct] },
                    });
                    out.push(GenProg {
                        family: "F6",
                        prog: Program {
                            clauses: vec![agg_clause, qc],
                        },
                    });
                }
            }
        }
    }
    // two aggregates in one head
    for (a1, a2) in [(Agg::Count, Agg::Sum), (Agg::Min, Agg::Max), (Agg::Sum, Agg::Avg)] {
        out.push(GenProg {
            family: "F6",
            prog: Program {
                clauses: vec![Clause {
                    rel: "q".into(),
                    head: vec![HeadArg::T(X), HeadArg::A(a1, 1), HeadArg::A(a2, 1)],
                    body: vec![pos("e", &[X, Y])],
                }],
            },
        });
    }
    // two aggregate rules over the SAME body and grouping that differ only in the aggregated variable
    // (or only in the function): identical sub-plans up to the aggregate's column
    {
        let bodies2: Vec<Vec<Lit>> = vec![vec![pos("e", &[X, Y]), pos("f", &[X, Z])], vec![pos("w", &[X, Y, Z])]];
        for body in &bodies2 {
            for ag in AGGS {
                for (v1, v2, ag2) in [(1u8, 2u8, ag), (2, 1, ag)] {
                    let g1 = Clause { rel: "g".into(), head: vec![HeadArg::T(X), HeadArg::A(ag, v1)], body: body.clone() };
                    let g2 = Clause { rel: "k".into(), head: vec![HeadArg::T(X), HeadArg::A(ag2, v2)], body: body.clone() };
                    out.push(GenProg { family: "F6", prog: Program { clauses: vec![g1.clone(), g2.clone(), q(&[X, Y], vec![pos("k", &[X, Y])])] } });
                    if v1 == 1 {
                        out.push(GenProg { family: "F6", prog: Program { clauses: vec![g1.clone(), g2.clone(), q(&[X, Y, Z], vec![pos("g", &[X, Y]), pos("k", &[X, Z])])] } });
                    }
                }
            }
            // same variable, different function
            for (a1, a2) in [(Agg::Count, Agg::CountDistinct), (Agg::Min, Agg::Max), (Agg::Sum, Agg::Avg)] {
                let g1 = Clause { rel: "g".into(), head: vec![HeadArg::T(X), HeadArg::A(a1, 1)], body: body.clone() };
                let g2 = Clause { rel: "k".into(), head: vec![HeadArg::T(X), HeadArg::A(a2, 1)], body: body.clone() };
                out.push(GenProg { family: "F6", prog: Program { clauses: vec![g1, g2, q(&[X, Y], vec![pos("k", &[X, Y])])] } });
            }
        }
    }
    // union head whose branches are aggregate clauses (same / different aggregate, one plain branch), queried
    // directly and through a reader rule
    for (a1, a2) in [(Agg::Sum, Agg::Sum), (Agg::Count, Agg::Count), (Agg::Min, Agg::Max), (Agg::Count, Agg::Sum)] {
        let c1 = Clause { rel: "g".into(), head: vec![HeadArg::T(X), HeadArg::A(a1, 1)], body: vec![pos("e", &[X, Y])] };
        let c2 = Clause { rel: "g".into(), head: vec![HeadArg::T(X), HeadArg::A(a2, 1)], body: vec![pos("f", &[X, Y])] };
        out.push(GenProg { family: "F6", prog: Program { clauses: vec![c1.clone(), c2.clone(), q(&[X, Y], vec![pos("g", &[X, Y])])] } });
        let mut d1 = c1.clone();
        d1.rel = "q".into();
        let mut d2 = c2.clone();
        d2.rel = "q".into();
        out.push(GenProg { family: "F6", prog: Program { clauses: vec![d1, d2] } });
    }
    {
        let c1 = Clause { rel: "g".into(), head: vec![HeadArg::T(X), HeadArg::A(Agg::Count, 1)], body: vec![pos("e", &[X, Y])] };
        let c2 = clause("g", &[X, Y], vec![pos("f", &[X, Y])]);
        out.push(GenProg { family: "F6", prog: Program { clauses: vec![c1, c2, q(&[X, Y], vec![pos("g", &[X, Y])])] } });
    }
    // aggregate over an IDB union
    out.push(GenProg {
        family: "F6",
        prog: Program {
            clauses: vec![
                clause("a", &[X, Y], vec![pos("e", &[X, Y])]),
                clause("a", &[X, Y], vec![pos("f", &[X, Y])]),
                Clause {
                    rel: "q".into(),
                    head: vec![HeadArg::T(X), HeadArg::A(Agg::Count, 1)],
                    body: vec![pos("a", &[X, Y])],
                },
            ],
        },
    });
    out
}

/// F7: recursive min/max heads (C07 structure only).
pub fn f7() -> Vec<GenProg> {
    let mut out = vec![];
    for ag in [Agg::Min, Agg::Max] {
        out.push(GenProg {
            family: "F7recagg",
            prog: Program {
                clauses: vec![
                    Clause {
                        rel: "sp".into(),
                        head: vec![HeadArg::T(X), HeadArg::T(Y), HeadArg::A(ag, 2)],
                        body: vec![pos("w", &[X, Y, Z])],
                    },
                    Clause {
                        rel: "sp".into(),
                        head: vec![HeadArg::T(X), HeadArg::T(Z), HeadArg::A(ag, 5)],
                        body: vec![pos("sp", &[X, Y, W]), pos("w", &[Y, Z, Var(4)]), Lit::Assign(5, W, ArOp::Add, Var(4))],
                    },
                    clause("q", &[X, Y, Z], vec![pos("sp", &[X, Y, Z])]),
                ],
            },
        });
    }
    out
}


/// F8: repeated sub-plans — two clauses (or two union branches, or a rule and the query) share the same
/// body, so the subplan-sharing pass has something to extract; bodies include negation of base and of
/// DERIVED relations, joins with derived relations, comparisons.
pub fn f8(b: &Bounds) -> Vec<GenProg> {
    let mut out = vec![];
    let lower: Vec<Clause> = vec![clause("d", &[X], vec![pos("m", &[X])]), clause("d2", &[X, Y], vec![pos("f", &[X, Y])])];
    // (body, variables usable in heads, needs lower layer)
    let bodies_: Vec<(Vec<Lit>, Vec<Term>)> = vec![
        (vec![pos("e", &[X, Y]), neg("d", &[X])], vec![X, Y]),
        (vec![pos("e", &[X, Y]), neg("d", &[Y])], vec![X, Y]),
        (vec![pos("e", &[X, Y]), neg("m", &[X])], vec![X, Y]),
        (vec![pos("e", &[X, Y]), pos("f", &[Y, Z])], vec![X, Y, Z]),
        (vec![pos("e", &[X, Y]), pos("d2", &[Y, Z])], vec![X, Y, Z]),
        (vec![pos("e", &[X, Y]), Lit::Cmp(X, CmpOp::Lt, Y)], vec![X, Y]),
        (vec![pos("e", &[X, Y]), neg("d2", &[X, Y])], vec![X, Y]),
        (vec![pos("e", &[X, Y]), pos("n", &[X]), neg("d", &[X])], vec![X, Y]),
        (vec![pos("n", &[X]), neg("d", &[X])], vec![X]),
    ];
    for (body, vars) in &bodies_ {
        let uses = |name: &str| body.iter().any(|l| matches!(l, Lit::Pos(a) | Lit::Neg(a) if a.rel == name));
        let mut low: Vec<Clause> = vec![];
        if uses("d") {
            low.push(lower[0].clone());
        }
        if uses("d2") {
            low.push(lower[1].clone());
        }
        let mut hs: Vec<Vec<Term>> = vec![];
        for v in vars {
            hs.push(vec![v.clone()]);
        }
        if vars.len() >= 2 {
            hs.push(vec![vars[0].clone(), vars[1].clone()]);
            hs.push(vec![vars[1].clone(), vars[0].clone()]);
        }
        if vars.len() >= 3 && !b.quick {
            hs.push(vec![vars[0].clone(), vars[2].clone()]);
        }
        for h1 in &hs {
            for h2 in &hs {
                // two heads with the same body; query reads one, the other, or joins both
                let p = clause("p", h1, body.clone());
                let r = clause("r", h2, body.clone());
                let a1: Vec<Term> = (0..h1.len()).map(|i| Var(i as u8)).collect();
                let a2: Vec<Term> = (0..h2.len()).map(|i| Var(i as u8)).collect();
                let mut qs: Vec<Clause> = vec![q(&a1, vec![pos("p", &a1)]), q(&a2, vec![pos("r", &a2)])];
                if !b.quick || h1.len() == 1 {
                    // join on the first column
                    let mut ra: Vec<Term> = vec![X];
                    for i in 1..h2.len() {
                        ra.push(Var((h1.len() + i) as u8));
                    }
                    qs.push(q(&[X], vec![pos("p", &a1), pos("r", &ra)]));
                }
                for qc in qs {
                    let mut cl = low.clone();
                    cl.push(p.clone());
                    cl.push(r.clone());
                    cl.push(qc);
                    out.push(GenProg { family: "F8", prog: Program { clauses: cl } });
                }
                // union head whose two branches share the body
                if h1.len() == h2.len() && h1 != h2 {
                    let mut cl = low.clone();
                    cl.push(clause("a", h1, body.clone()));
                    cl.push(clause("a", h2, body.clone()));
                    cl.push(q(&a1, vec![pos("a", &a1)]));
                    out.push(GenProg { family: "F8", prog: Program { clauses: cl } });
                }
            }
            // a rule and the query itself share the body
            let mut cl = low.clone();
            cl.push(clause("p", h1, body.clone()));
            let mut qb = body.clone();
            let pa: Vec<Term> = h1.clone();
            qb.push(pos("p", &pa));
            cl.push(q(h1, qb));
            out.push(GenProg { family: "F8", prog: Program { clauses: cl } });
        }
    }
    out
}

/// F9: atoms carrying SEVERAL selections at once (two constants, constant + repeated variable, a variable three
/// times) over a ternary relation, alone and joined with another atom.
pub fn f9(b: &Bounds) -> Vec<GenProg> {
    let mut out = vec![];
    let watoms: Vec<Vec<Term>> = vec![
        vec![X, Const(1), Const(2)],
        vec![X, X, Const(1)],
        vec![X, X, X],
        vec![X, Y, Const(1)],
        vec![X, Const(1), Y],
        vec![Const(1), X, Const(2)],
        vec![X, Y, Y],
        vec![X, Const(2), Const(2)],
        vec![Const(1), Const(1), X],
        vec![X, Wild, Const(1)],
    ];
    for wa in &watoms {
        let has_y = wa.contains(&Y);
        let mut partners: Vec<Option<Lit>> = vec![None, Some(pos("n", &[X])), Some(pos("e", &[X, Z]))];
        if has_y {
            partners.push(Some(pos("e", &[X, Y])));
            partners.push(Some(pos("e", &[Y, X])));
        }
        if !b.quick {
            partners.push(Some(pos("e", &[Z, X])));
            partners.push(Some(neg("m", &[X])));
        }
        for pt in &partners {
            for w_first in [true, false] {
                if pt.is_none() && !w_first {
                    continue;
                }
                let mut body = vec![];
                if w_first {
                    body.push(pos("w", wa));
                }
                if let Some(p) = pt {
                    body.push(p.clone());
                }
                if !w_first {
                    body.push(pos("w", wa));
                }
                let uses_z = body.iter().any(|l| matches!(l, Lit::Pos(a) if a.args.contains(&Z)));
                let mut heads: Vec<Vec<Term>> = vec![vec![X]];
                if has_y {
                    heads.push(vec![X, Y]);
                }
                if uses_z {
                    heads.push(vec![X, Z]);
                }
                for h in heads {
                    out.push(GenProg { family: "F9", prog: Program { clauses: vec![q(&h, body.clone())] } });
                    // through an intermediate rule
                    if !b.quick || h.len() == 1 {
                        let a: Vec<Term> = (0..h.len()).map(|i| Var(i as u8)).collect();
                        out.push(GenProg { family: "F9", prog: Program { clauses: vec![clause("a", &h, body.clone()), q(&a, vec![pos("a", &a)])] } });
                    }
                }
            }
        }
    }
    out
}

/// F10: bound queries over recursive relations in the form the `?p(1, Y)` shorthand desugars to
/// (`__query__(C, Y) <- p(C, Y), C = 1`): the only form the magic-sets rewrite looks at.
pub fn f10(b: &Bounds) -> Vec<GenProg> {
    let base: Vec<Clause> = vec![clause("p", &[X, Y], vec![pos("e", &[X, Y])]), clause("p", &[Y, X], vec![pos("e", &[X, Y])])];
    let steps: Vec<Clause> = vec![
        clause("p", &[X, Z], vec![pos("p", &[X, Y]), pos("e", &[Y, Z])]),
        clause("p", &[X, Z], vec![pos("e", &[X, Y]), pos("p", &[Y, Z])]),
        clause("p", &[X, Z], vec![pos("p", &[X, Y]), pos("p", &[Y, Z])]),
        clause("p", &[X, Z], vec![pos("p", &[X, Y]), pos("f", &[Y, Z])]),
        clause("p", &[X, Z], vec![pos("p", &[X, Y]), pos("e", &[Y, Z]), pos("n", &[Z])]),
    ];
    let consts: &[i64] = if b.quick { &[1, 2] } else { &[1, 2, 3] };
    let mut out = vec![];
    for bc in &base {
        for st in &steps {
            for k in consts {
                let queries = vec![
                    clause("__query__", &[X, Y], vec![pos("p", &[X, Y]), Lit::Cmp(X, CmpOp::Eq, Const(*k))]),
                    clause("__query__", &[X, Y], vec![pos("p", &[X, Y]), Lit::Cmp(Y, CmpOp::Eq, Const(*k))]),
                    clause("__query__", &[X, Y], vec![pos("p", &[X, Y]), Lit::Cmp(X, CmpOp::Eq, Const(*k)), Lit::Cmp(Y, CmpOp::Eq, Const(3 - *k.min(&2)))]),
                ];
                for qc in queries {
                    out.push(GenProg { family: "F10magic", prog: Program { clauses: vec![bc.clone(), st.clone(), qc] } });
                }
            }
        }
    }
    out
}

pub fn all_families(b: &Bounds, which: &[&str]) -> Vec<GenProg> {
    let mut out = vec![];
    for w in which {
        match *w {
            "F1" => out.extend(f1(b)),
            "F2" => out.extend(f2(b)),
            "F3" => out.extend(f3(b)),
            "F4" => out.extend(f4(b)),
            "F5" => out.extend(f5(b)),
            "F6" => out.extend(f6(b)),
            "F7" => out.extend(f7()),
            "F8" => out.extend(f8(b)),
            "F9" => out.extend(f9(b)),
            "F10" => out.extend(f10(b)),
            _ => panic!("unknown family {w}"),
        }
    }
    // de-duplicate
    let mut seen = BTreeSet::new();
    out.retain(|g| seen.insert(g.prog.clone()));
    out
}

/// EDB sets for a program: all subsets within the per-relation bounds over the domain.
pub fn edbs_for(p: &Program, b: &Bounds, budget: usize) -> Vec<Db> {
    let rels = p.edb_rels();
    // choose the domain and per-relation caps so that the product stays within `budget`
    let options: Vec<(Vec<i64>, usize, usize)> = if b.quick {
        vec![(vec![1, 2, 3], 3, 2), (vec![1, 2, 3], 2, 2), (vec![1, 2, 3], 2, 1), (vec![1, 2], 2, 1), (vec![1, 2], 1, 1)]
    } else {
        vec![(vec![1, 2, 3], 4, 2), (vec![1, 2, 3], 3, 2), (vec![1, 2, 3], 3, 1), (vec![1, 2, 3], 2, 1), (vec![1, 2], 2, 1)]
    };
    let names: Vec<(&String, &usize)> = rels.iter().collect();
    for (dom, m_primary, m_secondary) in &options {
        let mut lists: Vec<(String, Vec<Rel>)> = vec![];
        let mut total: usize = 1;
        for (i, (name, ar)) in names.iter().enumerate() {
            // ternary relations: a reduced universe (5 tuples sharing their first column, so that groups have
            // several members with different 2nd / 3rd columns) keeps the subset count small
            let uni = if **ar == 3 { vec![vec![1, 1, 1], vec![1, 1, 2], vec![1, 2, 1], vec![2, 1, 1], vec![1, 2, 2]] } else { universe(dom, **ar) };
            let cap = if i == 0 { *m_primary } else { *m_secondary };
            let cap = if **ar == 3 { cap.max(2) } else { cap };
            let subs = subsets_upto(&uni, cap.min(uni.len()));
            total = total.saturating_mul(subs.len());
            lists.push(((*name).clone(), subs));
        }
        if total <= budget {
            return edb_product(&lists);
        }
    }
    // smallest option regardless of budget
    let (dom, mp, ms) = options.last().unwrap();
    let mut lists = vec![];
    for (i, (name, ar)) in names.iter().enumerate() {
        let uni = if **ar == 3 { vec![vec![1, 1, 1], vec![1, 1, 2], vec![1, 2, 1], vec![2, 1, 1], vec![1, 2, 2]] } else { universe(dom, **ar) };
        let cap = if i == 0 { *mp } else { *ms };
        let cap = if **ar == 3 { cap.max(2) } else { cap };
        lists.push(((*name).clone(), subsets_upto(&uni, cap.min(uni.len()))));
    }
    edb_product(&lists)
}
