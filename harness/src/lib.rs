pub fn hello() {}
