pub mod common;
pub mod r1;
pub mod gen;
pub mod e1;
pub mod e5;
pub mod e2_store;
pub mod e2_handler;
