//! R1 — reference stratified-Datalog evaluator over i64, with its own program
//! representation and printer. Shares no code with the engine under test.

use std::collections::{BTreeMap, BTreeSet};
use std::fmt::Write;
use serde::{Deserialize, Serialize};

pub type Row = Vec<i64>;
pub type Rel = BTreeSet<Row>;
pub type Db = BTreeMap<String, Rel>;

#[derive(Clone, PartialEq, Eq, Hash, PartialOrd, Ord, Debug, Serialize, Deserialize)]
pub enum Term {
    Var(u8),
    Const(i64),
    Wild,
}
pub use Term::*;

#[derive(Clone, PartialEq, Eq, Hash, PartialOrd, Ord, Debug, Serialize, Deserialize)]
pub struct Atom {
    pub rel: String,
    pub args: Vec<Term>,
}

#[derive(Clone, Copy, PartialEq, Eq, Hash, PartialOrd, Ord, Debug, Serialize, Deserialize)]
pub enum CmpOp {
    Eq,
    Ne,
    Lt,
    Le,
    Gt,
    Ge,
}
pub const CMP_OPS: [CmpOp; 6] = [CmpOp::Eq, CmpOp::Ne, CmpOp::Lt, CmpOp::Le, CmpOp::Gt, CmpOp::Ge];

#[derive(Clone, Copy, PartialEq, Eq, Hash, PartialOrd, Ord, Debug, Serialize, Deserialize)]
pub enum ArOp {
    Add,
    Sub,
    Mul,
    Div,
    Mod,
}

#[derive(Clone, PartialEq, Eq, Hash, PartialOrd, Ord, Debug, Serialize, Deserialize)]
pub enum Lit {
    Pos(Atom),
    Neg(Atom),
    Cmp(Term, CmpOp, Term),
    /// v = a op b
    Assign(u8, Term, ArOp, Term),
}

#[derive(Clone, Copy, PartialEq, Eq, Hash, PartialOrd, Ord, Debug, Serialize, Deserialize)]
pub enum Agg {
    Count,
    CountDistinct,
    Sum,
    Min,
    Max,
    Avg,
}
pub const AGGS: [Agg; 6] = [Agg::Count, Agg::CountDistinct, Agg::Sum, Agg::Min, Agg::Max, Agg::Avg];

#[derive(Clone, PartialEq, Eq, Hash, PartialOrd, Ord, Debug, Serialize, Deserialize)]
pub enum HeadArg {
    T(Term),
    A(Agg, u8),
}

#[derive(Clone, PartialEq, Eq, Hash, PartialOrd, Ord, Debug, Serialize, Deserialize)]
pub struct Clause {
    pub rel: String,
    pub head: Vec<HeadArg>,
    pub body: Vec<Lit>,
}

#[derive(Clone, PartialEq, Eq, Hash, PartialOrd, Ord, Debug, Serialize, Deserialize)]
pub struct Program {
    /// the last clause is the query clause; its head relation is the query relation
    pub clauses: Vec<Clause>,
}

pub fn var_name(v: u8) -> String {
    const N: [&str; 8] = ["X", "Y", "Z", "W", "V", "U", "T", "S"];
    if (v as usize) < N.len() {
        N[v as usize].to_string()
    } else {
        format!("V{v}")
    }
}

pub fn fmt_term(t: &Term) -> String {
    match t {
        Var(v) => var_name(*v),
        Const(c) => c.to_string(),
        Wild => "_".to_string(),
    }
}

pub fn fmt_atom(a: &Atom) -> String {
    let args: Vec<String> = a.args.iter().map(fmt_term).collect();
    format!("{}({})", a.rel, args.join(", "))
}

pub fn cmp_str(o: CmpOp) -> &'static str {
    match o {
        CmpOp::Eq => "=",
        CmpOp::Ne => "!=",
        CmpOp::Lt => "<",
        CmpOp::Le => "<=",
        CmpOp::Gt => ">",
        CmpOp::Ge => ">=",
    }
}
pub fn ar_str(o: ArOp) -> &'static str {
    match o {
        ArOp::Add => "+",
        ArOp::Sub => "-",
        ArOp::Mul => "*",
        ArOp::Div => "/",
        ArOp::Mod => "%",
    }
}
pub fn agg_str(a: Agg) -> &'static str {
    match a {
        Agg::Count => "count",
        Agg::CountDistinct => "count_distinct",
        Agg::Sum => "sum",
        Agg::Min => "min",
        Agg::Max => "max",
        Agg::Avg => "avg",
    }
}

pub fn fmt_lit(l: &Lit) -> String {
    match l {
        Lit::Pos(a) => fmt_atom(a),
        Lit::Neg(a) => format!("!{}", fmt_atom(a)),
        Lit::Cmp(a, o, b) => format!("{} {} {}", fmt_term(a), cmp_str(*o), fmt_term(b)),
        Lit::Assign(v, a, o, b) => format!("{} = {} {} {}", var_name(*v), fmt_term(a), ar_str(*o), fmt_term(b)),
    }
}

pub fn fmt_clause(c: &Clause) -> String {
    let mut s = String::new();
    let h: Vec<String> = c
        .head
        .iter()
        .map(|h| match h {
            HeadArg::T(t) => fmt_term(t),
            HeadArg::A(a, v) => format!("{}<{}>", agg_str(*a), var_name(*v)),
        })
        .collect();
    write!(s, "{}({})", c.rel, h.join(", ")).unwrap();
    if !c.body.is_empty() {
        let b: Vec<String> = c.body.iter().map(fmt_lit).collect();
        write!(s, " <- {}", b.join(", ")).unwrap();
    }
    s
}

impl Program {
    pub fn text(&self) -> String {
        self.clauses.iter().map(fmt_clause).collect::<Vec<_>>().join("\n")
    }
    pub fn query_rel(&self) -> &str {
        &self.clauses.last().unwrap().rel
    }
    pub fn query_arity(&self) -> usize {
        self.clauses.last().unwrap().head.len()
    }
    pub fn heads(&self) -> BTreeSet<String> {
        self.clauses.iter().map(|c| c.rel.clone()).collect()
    }
    /// EDB relations (name, arity) referenced in bodies and not defined by any clause.
    pub fn edb_rels(&self) -> BTreeMap<String, usize> {
        let heads = self.heads();
        let mut m = BTreeMap::new();
        for c in &self.clauses {
            for l in &c.body {
                if let Lit::Pos(a) | Lit::Neg(a) = l {
                    if !heads.contains(&a.rel) {
                        m.insert(a.rel.clone(), a.args.len());
                    }
                }
            }
        }
        m
    }
}

#[derive(Debug, Clone, PartialEq)]
pub enum EvalErr {
    Unsafe(String),
    Unstratified(String),
    Arith(String),
}

/// Aggregate result values: ints, or a rational average (num, den).
#[derive(Clone, Debug, PartialEq, Eq, PartialOrd, Ord, Hash)]
pub enum Out {
    I(i64),
    /// exact average as (sum, count)
    Avg(i64, i64),
}

pub type OutRow = Vec<Out>;

fn body_rels(c: &Clause) -> Vec<(String, bool)> {
    let mut v = vec![];
    for l in &c.body {
        match l {
            Lit::Pos(a) => v.push((a.rel.clone(), false)),
            Lit::Neg(a) => v.push((a.rel.clone(), true)),
            _ => {}
        }
    }
    v
}

fn has_agg(c: &Clause) -> bool {
    c.head.iter().any(|h| matches!(h, HeadArg::A(..)))
}

/// SCCs of the head-relation dependency graph in topological (dependencies first) order.
pub fn sccs(p: &Program) -> Vec<Vec<String>> {
    let heads: Vec<String> = p.heads().into_iter().collect();
    let idx: BTreeMap<&str, usize> = heads.iter().enumerate().map(|(i, h)| (h.as_str(), i)).collect();
    let n = heads.len();
    let mut adj = vec![BTreeSet::new(); n];
    for c in &p.clauses {
        let h = idx[c.rel.as_str()];
        for (r, _) in body_rels(c) {
            if let Some(&j) = idx.get(r.as_str()) {
                adj[h].insert(j);
            }
        }
    }
    // Tarjan
    struct St<'a> {
        adj: &'a [BTreeSet<usize>],
        index: Vec<Option<usize>>,
        low: Vec<usize>,
        on: Vec<bool>,
        stack: Vec<usize>,
        next: usize,
        out: Vec<Vec<usize>>,
    }
    fn go(s: &mut St, v: usize) {
        s.index[v] = Some(s.next);
        s.low[v] = s.next;
        s.next += 1;
        s.stack.push(v);
        s.on[v] = true;
        let succ: Vec<usize> = s.adj[v].iter().cloned().collect();
        for w in succ {
            if s.index[w].is_none() {
                go(s, w);
                s.low[v] = s.low[v].min(s.low[w]);
            } else if s.on[w] {
                s.low[v] = s.low[v].min(s.index[w].unwrap());
            }
        }
        if s.low[v] == s.index[v].unwrap() {
            let mut comp = vec![];
            loop {
                let w = s.stack.pop().unwrap();
                s.on[w] = false;
                comp.push(w);
                if w == v {
                    break;
                }
            }
            s.out.push(comp);
        }
    }
    let mut st = St {
        adj: &adj,
        index: vec![None; n],
        low: vec![0; n],
        on: vec![false; n],
        stack: vec![],
        next: 0,
        out: vec![],
    };
    for v in 0..n {
        if st.index[v].is_none() {
            go(&mut st, v);
        }
    }
    // Tarjan emits SCCs in reverse topological order of the condensation w.r.t. edges
    // head -> dependency, i.e. dependencies first. That is what we want.
    st.out
        .into_iter()
        .map(|c| {
            let mut v: Vec<String> = c.into_iter().map(|i| heads[i].clone()).collect();
            v.sort();
            v
        })
        .collect()
}

/// True iff the program has a negative or aggregate dependency inside an SCC.
pub fn unstratifiable(p: &Program) -> Option<String> {
    for comp in sccs(p) {
        let set: BTreeSet<&str> = comp.iter().map(|s| s.as_str()).collect();
        for c in &p.clauses {
            if !set.contains(c.rel.as_str()) {
                continue;
            }
            for (r, neg) in body_rels(c) {
                if set.contains(r.as_str()) && (neg || has_agg(c)) {
                    return Some(format!("{} depends {} on {} within an SCC", c.rel, if neg { "negatively" } else { "through aggregation" }, r));
                }
            }
        }
    }
    None
}

type Val = Vec<Option<i64>>;

fn term_val(t: &Term, v: &Val) -> Option<i64> {
    match t {
        Const(c) => Some(*c),
        Var(x) => v.get(*x as usize).cloned().flatten(),
        Wild => None,
    }
}

fn apply_ar(o: ArOp, a: i64, b: i64) -> Result<i64, EvalErr> {
    match o {
        ArOp::Add => a.checked_add(b).ok_or(EvalErr::Arith("overflow".into())),
        ArOp::Sub => a.checked_sub(b).ok_or(EvalErr::Arith("overflow".into())),
        ArOp::Mul => a.checked_mul(b).ok_or(EvalErr::Arith("overflow".into())),
        ArOp::Div => {
            if b == 0 {
                Err(EvalErr::Arith("div0".into()))
            } else {
                Ok(a.wrapping_div(b))
            }
        }
        ArOp::Mod => {
            if b == 0 {
                Err(EvalErr::Arith("mod0".into()))
            } else {
                Ok(a.wrapping_rem(b))
            }
        }
    }
}

fn apply_cmp(o: CmpOp, a: i64, b: i64) -> bool {
    match o {
        CmpOp::Eq => a == b,
        CmpOp::Ne => a != b,
        CmpOp::Lt => a < b,
        CmpOp::Le => a <= b,
        CmpOp::Gt => a > b,
        CmpOp::Ge => a >= b,
    }
}

pub fn max_var(c: &Clause) -> usize {
    let mut m = 0usize;
    let mut see = |t: &Term| {
        if let Var(v) = t {
            m = m.max(*v as usize + 1)
        }
    };
    for h in &c.head {
        match h {
            HeadArg::T(t) => see(t),
            HeadArg::A(_, v) => see(&Var(*v)),
        }
    }
    for l in &c.body {
        match l {
            Lit::Pos(a) | Lit::Neg(a) => a.args.iter().for_each(&mut see),
            Lit::Cmp(a, _, b) => {
                see(a);
                see(b)
            }
            Lit::Assign(v, a, _, b) => {
                see(&Var(*v));
                see(a);
                see(b)
            }
        }
    }
    m
}

/// All distinct valuations of the clause body (wildcards of positive atoms become
/// anonymous variables so that they take part in "distinct body valuations").
pub fn body_valuations(c: &Clause, db: &Db) -> Result<BTreeSet<Val>, EvalErr> {
    let nv = max_var(c);
    // rewrite positive wildcards to fresh variables
    let mut fresh = nv;
    let mut pos: Vec<Atom> = vec![];
    for l in &c.body {
        if let Lit::Pos(a) = l {
            let mut a = a.clone();
            for t in a.args.iter_mut() {
                if *t == Wild {
                    *t = Var(fresh as u8);
                    fresh += 1;
                }
            }
            pos.push(a);
        }
    }
    let empty = Rel::new();
    let mut vals: Vec<Val> = vec![vec![None; fresh]];
    for a in &pos {
        let rel = db.get(&a.rel).unwrap_or(&empty);
        let mut next = vec![];
        for v in &vals {
            'row: for row in rel {
                if row.len() != a.args.len() {
                    continue;
                }
                let mut nv2 = v.clone();
                for (t, x) in a.args.iter().zip(row) {
                    match t {
                        Const(c) => {
                            if c != x {
                                continue 'row;
                            }
                        }
                        Var(i) => match nv2[*i as usize] {
                            Some(y) => {
                                if y != *x {
                                    continue 'row;
                                }
                            }
                            None => nv2[*i as usize] = Some(*x),
                        },
                        Wild => {}
                    }
                }
                next.push(nv2);
            }
        }
        vals = next;
    }
    // assignments: iterate until no progress
    let mut pending: Vec<&Lit> = c.body.iter().filter(|l| matches!(l, Lit::Assign(..))).collect();
    // an equality comparison with exactly one unbound variable side acts as assignment
    let mut cmp_pending: Vec<&Lit> = c.body.iter().filter(|l| matches!(l, Lit::Cmp(..))).collect();
    loop {
        let mut progressed = false;
        let mut still = vec![];
        for l in pending {
            if let Lit::Assign(z, a, o, b) = l {
                // all valuations bind the same variable set, test on the first (or vacuous)
                let ready = vals.first().map_or(true, |v| {
                    (matches!(a, Const(_)) || term_val(a, v).is_some()) && (matches!(b, Const(_)) || term_val(b, v).is_some())
                });
                if !ready {
                    still.push(l);
                    continue;
                }
                let mut next = vec![];
                for v in &vals {
                    let (x, y) = (term_val(a, v).unwrap(), term_val(b, v).unwrap());
                    let r = apply_ar(*o, x, y)?;
                    let mut v2 = v.clone();
                    match v2[*z as usize] {
                        Some(cur) => {
                            if cur == r {
                                next.push(v2)
                            }
                        }
                        None => {
                            v2[*z as usize] = Some(r);
                            next.push(v2)
                        }
                    }
                }
                vals = next;
                progressed = true;
            }
        }
        pending = still;
        let mut still_c = vec![];
        for l in cmp_pending {
            if let Lit::Cmp(a, o, b) = l {
                let bound = |t: &Term| vals.first().map_or(true, |v| matches!(t, Const(_)) || term_val(t, v).is_some());
                if bound(a) && bound(b) {
                    vals.retain(|v| apply_cmp(*o, term_val(a, v).unwrap(), term_val(b, v).unwrap()));
                    progressed = true;
                } else if *o == CmpOp::Eq && (bound(a) != bound(b)) {
                    let (src, dst) = if bound(a) { (a, b) } else { (b, a) };
                    if let Var(z) = dst {
                        for v in vals.iter_mut() {
                            let x = term_val(src, v).unwrap();
                            v[*z as usize] = Some(x);
                        }
                        progressed = true;
                    } else {
                        return Err(EvalErr::Unsafe("wildcard in comparison".into()));
                    }
                } else {
                    still_c.push(l);
                }
            }
        }
        cmp_pending = still_c;
        if pending.is_empty() && cmp_pending.is_empty() {
            break;
        }
        if !progressed {
            return Err(EvalErr::Unsafe(format!("unbound variable in arithmetic/comparison of {}", fmt_clause(c))));
        }
    }
    // negation
    for l in &c.body {
        if let Lit::Neg(a) = l {
            let rel = db.get(&a.rel).unwrap_or(&empty);
            // every variable of a negated atom must be bound
            if let Some(v) = vals.first() {
                for t in &a.args {
                    if let Var(_) = t {
                        if term_val(t, v).is_none() {
                            return Err(EvalErr::Unsafe(format!("unbound variable in negated atom of {}", fmt_clause(c))));
                        }
                    }
                }
            }
            vals.retain(|v| {
                !rel.iter().any(|row| {
                    row.len() == a.args.len()
                        && a.args.iter().zip(row).all(|(t, x)| match t {
                            Wild => true,
                            _ => term_val(t, v) == Some(*x),
                        })
                })
            });
        }
    }
    Ok(vals.into_iter().collect())
}

fn eval_clause(c: &Clause, db: &Db) -> Result<BTreeSet<OutRow>, EvalErr> {
    let vals = body_valuations(c, db)?;
    let mut out = BTreeSet::new();
    if !has_agg(c) {
        for v in &vals {
            let mut row = vec![];
            for h in &c.head {
                if let HeadArg::T(t) = h {
                    match term_val(t, v) {
                        Some(x) => row.push(Out::I(x)),
                        None => return Err(EvalErr::Unsafe(format!("head variable unbound in {}", fmt_clause(c)))),
                    }
                }
            }
            out.insert(row);
        }
        return Ok(out);
    }
    // group by plain head args
    let mut groups: BTreeMap<Vec<i64>, Vec<&Val>> = BTreeMap::new();
    for v in &vals {
        let mut key = vec![];
        for h in &c.head {
            if let HeadArg::T(t) = h {
                key.push(term_val(t, v).ok_or_else(|| EvalErr::Unsafe("head var".into()))?);
            }
        }
        groups.entry(key).or_default().push(v);
    }
    for (key, members) in groups {
        let mut row = vec![];
        let mut ki = 0;
        for h in &c.head {
            match h {
                HeadArg::T(_) => {
                    row.push(Out::I(key[ki]));
                    ki += 1;
                }
                HeadArg::A(a, x) => {
                    let xs: Vec<i64> = members
                        .iter()
                        .map(|v| v[*x as usize].ok_or_else(|| EvalErr::Unsafe("agg var unbound".into())))
                        .collect::<Result<_, _>>()?;
                    row.push(match a {
                        Agg::Count => Out::I(xs.len() as i64),
                        Agg::CountDistinct => Out::I(xs.iter().collect::<BTreeSet<_>>().len() as i64),
                        Agg::Sum => Out::I(xs.iter().sum()),
                        Agg::Min => Out::I(*xs.iter().min().unwrap()),
                        Agg::Max => Out::I(*xs.iter().max().unwrap()),
                        Agg::Avg => Out::Avg(xs.iter().sum(), xs.len() as i64),
                    });
                }
            }
        }
        out.insert(row);
    }
    Ok(out)
}

/// Evaluate the program; returns the full model over IDB relations as OutRows,
/// with IDB relations also materialised as integer relations for use in bodies.
pub fn eval(p: &Program, edb: &Db) -> Result<BTreeMap<String, BTreeSet<OutRow>>, EvalErr> {
    if let Some(why) = unstratifiable(p) {
        return Err(EvalErr::Unstratified(why));
    }
    let mut db: Db = edb.clone();
    let mut model: BTreeMap<String, BTreeSet<OutRow>> = BTreeMap::new();
    for comp in sccs(p) {
        for h in &comp {
            db.entry(h.clone()).or_default();
            model.entry(h.clone()).or_default();
        }
        loop {
            let mut changed = false;
            for c in p.clauses.iter().filter(|c| comp.contains(&c.rel)) {
                let rows = eval_clause(c, &db)?;
                for r in rows {
                    let ints: Option<Row> = r
                        .iter()
                        .map(|o| match o {
                            Out::I(i) => Some(*i),
                            Out::Avg(s, n) => {
                                if s % n == 0 {
                                    Some(s / n)
                                } else {
                                    None
                                }
                            }
                        })
                        .collect();
                    if model.get_mut(&c.rel).unwrap().insert(r) {
                        changed = true;
                    }
                    match ints {
                        Some(ints) => {
                            db.get_mut(&c.rel).unwrap().insert(ints);
                        }
                        None => {
                            // a non-integral average feeding another clause is outside R1's integer domain
                            let used = p.clauses.iter().any(|c2| c2.body.iter().any(|l| matches!(l, Lit::Pos(a) | Lit::Neg(a) if a.rel == c.rel)));
                            if used {
                                return Err(EvalErr::Arith("non-integral avg used downstream".into()));
                            }
                        }
                    }
                }
            }
            if !changed {
                break;
            }
        }
    }
    Ok(model)
}

pub fn eval_query(p: &Program, edb: &Db) -> Result<BTreeSet<OutRow>, EvalErr> {
    let m = eval(p, edb)?;
    Ok(m.get(p.query_rel()).cloned().unwrap_or_default())
}

/// Integer-only model (relations whose rows are all Out::I).
pub fn eval_int_model(p: &Program, edb: &Db) -> Result<Db, EvalErr> {
    let m = eval(p, edb)?;
    let mut db = edb.clone();
    for (k, rows) in m {
        let rel: Rel = rows
            .iter()
            .filter_map(|r| r.iter().map(|o| if let Out::I(i) = o { Some(*i) } else { None }).collect::<Option<Row>>())
            .collect();
        db.insert(k, rel);
    }
    Ok(db)
}

// ---------------------------------------------------------------------------
// EDB enumeration

/// All subsets of `universe` with at most `max` elements.
pub fn subsets_upto(universe: &[Row], max: usize) -> Vec<Rel> {
    let n = universe.len();
    let mut out = vec![];
    fn rec(universe: &[Row], start: usize, max: usize, cur: &mut Vec<usize>, out: &mut Vec<Rel>) {
        out.push(cur.iter().map(|&i| universe[i].clone()).collect());
        if cur.len() == max {
            return;
        }
        for i in start..universe.len() {
            cur.push(i);
            rec(universe, i + 1, max, cur, out);
            cur.pop();
        }
    }
    let _ = n;
    rec(universe, 0, max, &mut vec![], &mut out);
    out
}

pub fn universe(domain: &[i64], arity: usize) -> Vec<Row> {
    let mut out: Vec<Row> = vec![vec![]];
    for _ in 0..arity {
        let mut next = vec![];
        for r in &out {
            for d in domain {
                let mut r2 = r.clone();
                r2.push(*d);
                next.push(r2);
            }
        }
        out = next;
    }
    out
}

/// Product of per-relation subset lists.
pub fn edb_product(rels: &[(String, Vec<Rel>)]) -> Vec<Db> {
    let mut out: Vec<Db> = vec![Db::new()];
    for (name, choices) in rels {
        let mut next = Vec::with_capacity(out.len() * choices.len());
        for db in &out {
            for c in choices {
                let mut d = db.clone();
                d.insert(name.clone(), c.clone());
                next.push(d);
            }
        }
        out = next;
    }
    out
}

pub fn fmt_db(db: &Db) -> String {
    let mut s = String::new();
    for (k, rel) in db {
        let rows: Vec<String> = rel.iter().map(|r| format!("({})", r.iter().map(|x| x.to_string()).collect::<Vec<_>>().join(","))).collect();
        write!(s, "{}={{{}}} ", k, rows.join(",")).unwrap();
    }
    s.trim_end().to_string()
}

pub fn db_to_json(db: &Db) -> serde_json::Value {
    let mut m = serde_json::Map::new();
    for (k, rel) in db {
        m.insert(k.clone(), serde_json::json!(rel.iter().collect::<Vec<_>>()));
    }
    serde_json::Value::Object(m)
}

pub fn db_from_json(v: &serde_json::Value) -> Db {
    let mut db = Db::new();
    if let Some(o) = v.as_object() {
        for (k, rows) in o {
            let rel: Rel = rows
                .as_array()
                .map(|a| a.iter().map(|r| r.as_array().unwrap().iter().map(|x| x.as_i64().unwrap()).collect()).collect())
                .unwrap_or_default();
            db.insert(k.clone(), rel);
        }
    }
    db
}
