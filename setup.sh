#!/bin/sh
# Build the verification framework offline from files on disk only.
set -e
cd "$(dirname "$0")"
export CARGO_NET_OFFLINE=true CARGO_TARGET_DIR="$(pwd)/target"
if [ -f shim/fsshim.c ]; then cc -O2 -shared -fPIC shim/fsshim.c -o shim/fsshim.so -ldl; fi
cargo build --offline --manifest-path harness/Cargo.toml --bins 2>&1 | tail -3
