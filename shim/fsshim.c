/* LD_PRELOAD shim of the verification harness.
 *
 * Part 1 (entropy): `getrandom` is interposed so that the harness owns the one source of OS entropy that
 * influences a compared observable: the 32-byte seed hnsw_rs draws for its level generator every time a
 * graph is (re)built.  A thread that installed a plan with verif_entropy_plan() gets, for its n-th 32-byte
 * request, either the `special` seed (n == special_call) or the `benign` seed; every other request, and every
 * request of a thread without a plan, goes to the kernel unchanged.
 *
 * Part 2 (file-system recorder) lives further down and is inactive unless VERIF_FSLOG is set.
 */
#define _GNU_SOURCE
#include <dlfcn.h>
#include <errno.h>
#include <fcntl.h>
#include <limits.h>
#include <stdarg.h>
#include <stdint.h>
#include <stdio.h>
#include <stdlib.h>
#include <string.h>
#include <sys/stat.h>
#include <sys/syscall.h>
#include <sys/types.h>
#include <sys/uio.h>
#include <unistd.h>
#include <pthread.h>

/* ------------------------------------------------------------------ entropy */

static __thread int plan_active = 0;
static __thread long plan_calls = 0;
static __thread long plan_special_call = -1;
static __thread unsigned char plan_benign[32];
static __thread unsigned char plan_special[32];

/* benign/special: 32 bytes each; special_call < 0: never. Resets the per-thread call counter. */
void verif_entropy_plan(const unsigned char *benign, long special_call, const unsigned char *special) {
    memcpy(plan_benign, benign, 32);
    if (special) memcpy(plan_special, special, 32);
    plan_special_call = special ? special_call : -1;
    plan_calls = 0;
    plan_active = 1;
}
void verif_entropy_clear(void) { plan_active = 0; }
long verif_entropy_calls(void) { return plan_calls; }

/* process-wide: answer every 16-byte request (the seed std's HashMap RandomState draws once per thread) with a
 * per-thread deterministic sequence, so that hash-map iteration order is a function of the work a thread has
 * done, not of the run */
static volatile int pin16 = 0;
void verif_entropy_pin16(int on) { pin16 = on; }
static volatile long pin16_served = 0;
long verif_entropy_pin16_served(void) { return pin16_served; }

ssize_t getrandom(void *buf, size_t len, unsigned int flags) {
    if (pin16 && len == 16) {
        /* the k-th 16-byte draw of a thread is a function of k only: the first one (std's per-thread hash seed)
         * is the constant it always was; later ones (e.g. UUIDs) differ from each other but repeat run to run */
        static __thread unsigned long pin16_n = 0;
        memset(buf, 0x5a, 16);
        unsigned long k = pin16_n++;
        for (int i = 0; i < 8; i++) ((unsigned char *)buf)[i] ^= (unsigned char)(k >> (8 * i));
        __sync_fetch_and_add(&pin16_served, 1);
        return 16;
    }
    if (plan_active && len == 32) {
        long n = plan_calls++;
        memcpy(buf, (n == plan_special_call) ? plan_special : plan_benign, 32);
        return 32;
    }
    return syscall(SYS_getrandom, buf, len, flags);
}

/* ------------------------------------------------------------------ file-system recorder
 *
 * Active when VERIF_FS_ROOT is set (e.g. "/dev/shm/verif-"). Every successful mutation of a path
 *   <root><name>/...   whose <name> contains the substring "rec"
 * is appended, as one text line, to the log file  <root><name>.fslog .
 *
 *   C <path>                       directory entry created (open O_CREAT on a missing file)
 *   T <path>                       existing file truncated by open(O_TRUNC)
 *   W <path> <offset> <len> <hex>  data written
 *   U <path> <len>                 ftruncate
 *   S <path>                       fsync / fdatasync of a file
 *   D <path>                       fsync of a directory
 *   R <old> <new>                  rename
 *   X <path>                       unlink
 *   M <path>                       mkdir
 *   Y <path>                       rmdir
 *   K <text>                       marker written by the harness (verif_fs_mark)
 * Paths never contain spaces in this harness.
 */

static const char *fs_root(void) {
    static int init = 0;
    static const char *root = NULL;
    if (!init) { root = getenv("VERIF_FS_ROOT"); init = 1; }
    return root;
}

/* returns 1 and fills logpath if `path` is under a recorded scratch directory */
static int recorded(const char *path, char *logpath, size_t n) {
    const char *root = fs_root();
    if (!root || !path) return 0;
    size_t rl = strlen(root);
    if (strncmp(path, root, rl) != 0) return 0;
    const char *name = path + rl;
    const char *slash = strchr(name, '/');
    size_t nl = slash ? (size_t)(slash - name) : strlen(name);
    if (nl == 0 || nl > 200) return 0;
    char nm[256]; memcpy(nm, name, nl); nm[nl] = 0;
    if (!strstr(nm, "rec")) return 0;
    if (strlen(nm) > 6 && strcmp(nm + strlen(nm) - 6, ".fslog") == 0) return 0;
    snprintf(logpath, n, "%s%s.fslog", root, nm);
    return 1;
}

static void log_line(const char *logpath, const char *line, size_t len) {
    int fd = (int)syscall(SYS_openat, AT_FDCWD, logpath, O_WRONLY | O_CREAT | O_APPEND | O_CLOEXEC, 0644);
    if (fd < 0) return;
    size_t off = 0;
    while (off < len) {
        long w = syscall(SYS_write, fd, line + off, len - off);
        if (w <= 0) break;
        off += (size_t)w;
    }
    syscall(SYS_close, fd);
}

static void log_fmt(const char *path_for_scope, const char *fmt, ...) {
    char lp[512];
    if (!recorded(path_for_scope, lp, sizeof lp)) return;
    char buf[2048];
    va_list ap; va_start(ap, fmt);
    int n = vsnprintf(buf, sizeof buf, fmt, ap);
    va_end(ap);
    if (n > 0) log_line(lp, buf, (size_t)(n < (int)sizeof buf ? n : (int)sizeof buf - 1));
}

void verif_fs_mark(const char *scratch_path, const char *text) {
    log_fmt(scratch_path, "K %s\n", text);
}

/* absolute path of (dirfd, path) */
static int abs_path(int dirfd, const char *path, char *out, size_t n) {
    if (!path) return 0;
    if (path[0] == '/') { snprintf(out, n, "%s", path); return 1; }
    char base[PATH_MAX];
    if (dirfd == AT_FDCWD) {
        if (!getcwd(base, sizeof base)) return 0;
    } else {
        char link[64]; snprintf(link, sizeof link, "/proc/self/fd/%d", dirfd);
        ssize_t l = readlink(link, base, sizeof base - 1);
        if (l <= 0) return 0;
        base[l] = 0;
    }
    snprintf(out, n, "%s/%s", base, path);
    return 1;
}
static int fd_path(int fd, char *out, size_t n) {
    char link[64]; snprintf(link, sizeof link, "/proc/self/fd/%d", fd);
    ssize_t l = readlink(link, out, n - 1);
    if (l <= 0) return 0;
    out[l] = 0;
    if (l > 10 && strcmp(out + l - 10, " (deleted)") == 0) return 0;
    return out[0] == '/';
}

#define REAL(name) static __typeof__(name) *real_##name = NULL; if (!real_##name) real_##name = dlsym(RTLD_NEXT, #name)

static int do_open(int dirfd, const char *path, int flags, mode_t mode, int use64) {
    (void)use64;
    char ap[PATH_MAX]; char lp[512];
    int rec = fs_root() && abs_path(dirfd, path, ap, sizeof ap) && recorded(ap, lp, sizeof lp);
    int existed = 0;
    if (rec && (flags & (O_CREAT | O_TRUNC))) {
        struct stat st; existed = (syscall(SYS_newfstatat, AT_FDCWD, ap, &st, 0) == 0);
    }
    int fd = (int)syscall(SYS_openat, dirfd, path, flags | O_LARGEFILE, mode);
    if (fd < 0) { errno = -fd > 0 ? errno : errno; return fd; }
    if (rec) {
        if ((flags & O_CREAT) && !existed) log_fmt(ap, "C %s\n", ap);
        else if ((flags & O_TRUNC) && existed && (flags & (O_WRONLY | O_RDWR))) log_fmt(ap, "T %s\n", ap);
    }
    return fd;
}

int open(const char *path, int flags, ...) { mode_t m = 0; if (flags & (O_CREAT | O_TMPFILE)) { va_list a; va_start(a, flags); m = va_arg(a, mode_t); va_end(a);} return do_open(AT_FDCWD, path, flags, m, 0); }
int open64(const char *path, int flags, ...) { mode_t m = 0; if (flags & (O_CREAT | O_TMPFILE)) { va_list a; va_start(a, flags); m = va_arg(a, mode_t); va_end(a);} return do_open(AT_FDCWD, path, flags, m, 1); }
int openat(int dirfd, const char *path, int flags, ...) { mode_t m = 0; if (flags & (O_CREAT | O_TMPFILE)) { va_list a; va_start(a, flags); m = va_arg(a, mode_t); va_end(a);} return do_open(dirfd, path, flags, m, 0); }
int openat64(int dirfd, const char *path, int flags, ...) { mode_t m = 0; if (flags & (O_CREAT | O_TMPFILE)) { va_list a; va_start(a, flags); m = va_arg(a, mode_t); va_end(a);} return do_open(dirfd, path, flags, m, 1); }
int creat(const char *path, mode_t mode) { return do_open(AT_FDCWD, path, O_CREAT | O_WRONLY | O_TRUNC, mode, 0); }
int creat64(const char *path, mode_t mode) { return do_open(AT_FDCWD, path, O_CREAT | O_WRONLY | O_TRUNC, mode, 1); }

static void log_write(int fd, const void *buf, size_t len, off_t offset) {
    char p[PATH_MAX]; char lp[512];
    if (!fs_root() || !fd_path(fd, p, sizeof p) || !recorded(p, lp, sizeof lp)) return;
    size_t cap = strlen(p) + 64 + 2 * len + 2;
    char *line = malloc(cap);
    if (!line) return;
    int n = snprintf(line, cap, "W %s %lld %zu ", p, (long long)offset, len);
    static const char hx[] = "0123456789abcdef";
    const unsigned char *b = buf;
    for (size_t i = 0; i < len; i++) { line[n++] = hx[b[i] >> 4]; line[n++] = hx[b[i] & 15]; }
    line[n++] = '\n';
    log_line(lp, line, (size_t)n);
    free(line);
}

ssize_t write(int fd, const void *buf, size_t count) {
    ssize_t r = syscall(SYS_write, fd, buf, count);
    if (r > 0 && fs_root()) {
        off_t end = (off_t)syscall(SYS_lseek, fd, 0, SEEK_CUR);
        if (end >= r) log_write(fd, buf, (size_t)r, end - r);
    }
    return r;
}
ssize_t pwrite(int fd, const void *buf, size_t count, off_t offset) {
    ssize_t r = syscall(SYS_pwrite64, fd, buf, count, offset);
    if (r > 0 && fs_root()) log_write(fd, buf, (size_t)r, offset);
    return r;
}
ssize_t pwrite64(int fd, const void *buf, size_t count, off_t offset) {
    ssize_t r = syscall(SYS_pwrite64, fd, buf, count, offset);
    if (r > 0 && fs_root()) log_write(fd, buf, (size_t)r, offset);
    return r;
}
ssize_t writev(int fd, const struct iovec *iov, int iovcnt) {
    ssize_t r = syscall(SYS_writev, fd, iov, iovcnt);
    if (r > 0 && fs_root()) {
        off_t end = (off_t)syscall(SYS_lseek, fd, 0, SEEK_CUR);
        if (end >= r) {
            char *tmp = malloc((size_t)r); size_t k = 0;
            if (tmp) {
                for (int i = 0; i < iovcnt && k < (size_t)r; i++) { size_t c = iov[i].iov_len; if (c > (size_t)r - k) c = (size_t)r - k; memcpy(tmp + k, iov[i].iov_base, c); k += c; }
                log_write(fd, tmp, k, end - r);
                free(tmp);
            }
        }
    }
    return r;
}
static int do_ftruncate(int fd, off_t len) {
    int r = (int)syscall(SYS_ftruncate, fd, len);
    if (r == 0 && fs_root()) { char p[PATH_MAX]; if (fd_path(fd, p, sizeof p)) log_fmt(p, "U %s %lld\n", p, (long long)len); }
    return r;
}
int ftruncate(int fd, off_t len) { return do_ftruncate(fd, len); }
int ftruncate64(int fd, off_t len) { return do_ftruncate(fd, len); }

static int do_sync(int fd, long nr) {
    int r = (int)syscall(nr, fd);
    if (r == 0 && fs_root()) {
        char p[PATH_MAX];
        if (fd_path(fd, p, sizeof p)) {
            struct stat st;
            int isdir = (syscall(SYS_fstat, fd, &st) == 0) && S_ISDIR(st.st_mode);
            log_fmt(p, "%c %s\n", isdir ? 'D' : 'S', p);
        }
    }
    return r;
}
int fsync(int fd) { return do_sync(fd, SYS_fsync); }
int fdatasync(int fd) { return do_sync(fd, SYS_fdatasync); }

static int do_rename(int od, const char *o, int nd, const char *n, unsigned flags) {
    char ao[PATH_MAX], an[PATH_MAX];
    int ok = fs_root() && abs_path(od, o, ao, sizeof ao) && abs_path(nd, n, an, sizeof an);
    int r = (int)syscall(SYS_renameat2, od, o, nd, n, flags);
    if (r == 0 && ok) log_fmt(an, "R %s %s\n", ao, an);
    return r;
}
int rename(const char *o, const char *n) { return do_rename(AT_FDCWD, o, AT_FDCWD, n, 0); }
int renameat(int od, const char *o, int nd, const char *n) { return do_rename(od, o, nd, n, 0); }
int renameat2(int od, const char *o, int nd, const char *n, unsigned flags) { return do_rename(od, o, nd, n, flags); }

static int do_unlinkat(int dirfd, const char *path, int flags) {
    char ap[PATH_MAX];
    int ok = fs_root() && abs_path(dirfd, path, ap, sizeof ap);
    int r = (int)syscall(SYS_unlinkat, dirfd, path, flags);
    if (r == 0 && ok) log_fmt(ap, "%c %s\n", (flags & AT_REMOVEDIR) ? 'Y' : 'X', ap);
    return r;
}
int unlink(const char *path) { return do_unlinkat(AT_FDCWD, path, 0); }
int unlinkat(int dirfd, const char *path, int flags) { return do_unlinkat(dirfd, path, flags); }
int rmdir(const char *path) { return do_unlinkat(AT_FDCWD, path, AT_REMOVEDIR); }

static int do_mkdirat(int dirfd, const char *path, mode_t mode) {
    char ap[PATH_MAX];
    int ok = fs_root() && abs_path(dirfd, path, ap, sizeof ap);
    int r = (int)syscall(SYS_mkdirat, dirfd, path, mode);
    if (r == 0 && ok) log_fmt(ap, "M %s\n", ap);
    return r;
}
int mkdir(const char *path, mode_t mode) { return do_mkdirat(AT_FDCWD, path, mode); }
int mkdirat(int dirfd, const char *path, mode_t mode) { return do_mkdirat(dirfd, path, mode); }
