/* LD_PRELOAD shim of the verification harness.
 *
 * Part 1 (entropy): `getrandom` is interposed so that the harness owns the one source of OS entropy that
 * influences a compared observable: the 32-byte seed hnsw_rs draws for its level generator every time a
 * graph is (re)built.  A thread that installed a plan with verif_entropy_plan() gets, for its n-th 32-byte
 * request, either the `special` seed (n == special_call) or the `benign` seed; every other request, and every
 * request of a thread without a plan, goes to the kernel unchanged.
 *
 * Part 2 (file-system recorder) lives further down and is inactive unless VERIF_FSLOG is set.
 */
#define _GNU_SOURCE
#include <dlfcn.h>
#include <errno.h>
#include <fcntl.h>
#include <limits.h>
#include <stdarg.h>
#include <stdint.h>
#include <stdio.h>
#include <stdlib.h>
#include <string.h>
#include <sys/stat.h>
#include <sys/syscall.h>
#include <sys/types.h>
#include <sys/uio.h>
#include <unistd.h>
#include <pthread.h>

/* ------------------------------------------------------------------ entropy */

static __thread int plan_active = 0;
static __thread long plan_calls = 0;
static __thread long plan_special_call = -1;
static __thread unsigned char plan_benign[32];
static __thread unsigned char plan_special[32];

/* benign/special: 32 bytes each; special_call < 0: never. Resets the per-thread call counter. */
void verif_entropy_plan(const unsigned char *benign, long special_call, const unsigned char *special) {
    memcpy(plan_benign, benign, 32);
    if (special) memcpy(plan_special, special, 32);
    plan_special_call = special ? special_call : -1;
    plan_calls = 0;
    plan_active = 1;
}
void verif_entropy_clear(void) { plan_active = 0; }
long verif_entropy_calls(void) { return plan_calls; }

ssize_t getrandom(void *buf, size_t len, unsigned int flags) {
    if (plan_active && len == 32) {
        long n = plan_calls++;
        memcpy(buf, (n == plan_special_call) ? plan_special : plan_benign, 32);
        return 32;
    }
    return syscall(SYS_getrandom, buf, len, flags);
}
