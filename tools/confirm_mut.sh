#!/bin/bash
# confirm_mut.sh <dir>  — confirm a seeded change in its scratch worktree <dir>/wt (target <dir>/target):
#   demo fails with the change, passes without it, and the repository's pinned suite passes with the change.
D=$1; cd $D/wt || exit 2
export CARGO_NET_OFFLINE=true CARGO_PROFILE_DEV_DEBUG=0 CARGO_PROFILE_TEST_DEBUG=0 CARGO_TARGET_DIR=$D/target
L=$D/confirm.log; : > $L
git diff HEAD -- src > $D/out/patch.confirm.diff
if ! cmp -s $D/out/patch.confirm.diff $D/out/patch.diff; then echo "NOTE: worktree src diff differs from out/patch.diff; resetting src to patch.diff" >> $L; git checkout -- src; git apply $D/out/patch.diff || { echo "patch does not apply" >> $L; exit 2; }; fi
cp $D/out/zz_mut_demo.rs tests/zz_mut_demo.rs
echo "== demo WITH change" >> $L
cargo test --offline -j 8 --test zz_mut_demo >> $L 2>&1; with=$?
echo "== suite WITH change" >> $L
cargo nextest run --workspace --no-fail-fast --tool-config-file pb:/w/lib/nextest.toml --profile pb --test-threads 8 --offline --build-jobs 8 -E 'not binary(zz_mut_demo)' > $D/suite.log 2>&1; suite=$?
grep "Summary" $D/suite.log >> $L
if [ $suite -ne 0 ]; then
  # timing-sensitive tests fail under machine load: re-run each failed test alone, once
  failed=$(grep -E "^\s+FAIL " $D/suite.log | sed -E 's/.*\) +[a-z_:-]+ +//' | awk '{print $NF}' | sort -u)
  echo "== re-running failed tests alone: $failed" >> $L
  suite=0
  for t in $failed; do
    cargo nextest run --workspace --tool-config-file pb:/w/lib/nextest.toml --profile pb --test-threads 1 --offline -E "test(=$t)" >> $D/suite.log 2>&1 || { suite=100; echo "STILL FAILS alone: $t" >> $L; }
  done
fi
git checkout -- src   # (no git stash: the stash is shared by all worktrees of a repository)
echo "== demo WITHOUT change" >> $L
cargo test --offline -j 8 --test zz_mut_demo >> $L 2>&1; without=$?
git apply $D/out/patch.diff
echo "RESULT demo_with_change_exit=$with suite_with_change_exit=$suite demo_without_change_exit=$without" | tee -a $L
