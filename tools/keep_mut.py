#!/usr/bin/env python3
"""keep_mut.py <scratch dir> <seed id> <property> <needs> <detected_by> [<note>]
Copies a confirmed seeded change into /verif/seeded/<seed id>/ with meta.json."""
import sys, os, shutil, json, re
d, sid, prop, needs, detected = sys.argv[1:6]
note = sys.argv[6] if len(sys.argv) > 6 else ""
out = f"/verif/seeded/{sid}"
os.makedirs(out, exist_ok=True)
shutil.copy(f"{d}/out/patch.diff", f"{out}/patch.diff")
shutil.copy(f"{d}/out/zz_mut_demo.rs", f"{out}/zz_mut_demo.rs")
if os.path.exists(f"{d}/out/notes.md"):
    shutil.copy(f"{d}/out/notes.md", f"{out}/notes.md")
log = open(f"{d}/confirm.log").read() if os.path.exists(f"{d}/confirm.log") else ""
res = re.findall(r"RESULT (.*)", log)
summ = re.findall(r"Summary.*", log)
meta = {
  "property": prop,
  "origin": "independent sub-agent given only the property text and a scratch worktree of /repo",
  "needs_to_manifest": needs,
  "confirmed": {
    "how": "tools/confirm_mut.sh in the scratch worktree: demo test with the change, pinned nextest suite with the change (demo excluded), demo test with the src change stashed",
    "result": res[-1] if res else "not run",
    "suite_summary": summ[-1].strip() if summ else "",
  },
  "detected_by": detected,
  "note": note,
}
json.dump(meta, open(f"{out}/meta.json", "w"), indent=1)
print(json.dumps(meta, indent=1))
