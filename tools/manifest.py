#!/usr/bin/env python3
"""Regenerates /verif/MANIFEST.json from the table below (single source of truth for check metadata)."""
import json, subprocess, os
ROOT = os.path.dirname(os.path.dirname(os.path.abspath(__file__)))
props = [json.loads(l) for l in open(os.path.join(ROOT, 'properties.jsonl'))]

E1 = "E1 PROG: exhaustive enumeration of a bounded program grammar x all small EDBs x configurations, executed on the real IQLEngine, compared with the harness's reference evaluator R1"
# id -> (category, technique, level text, level note, design ref, engine)
CHECKS = {
 "C01": ("exploration", "bounded-exhaustive program x EDB enumeration on the real engine vs reference Datalog evaluator", "Every program of grammar families F1-F6 within the stated size bounds x every EDB with <=m tuples over a 3-value domain is executed on the real IQLEngine (default config) and its answer compared as a set with the independent reference evaluator R1. A coverage statement over the small scope, not a proof for all programs.", "R1 (harness/src/r1.rs) is the oracle; Int64 values only; small-scope hypothesis for larger programs", "2/C01", "E1"),
 "C02": ("exploration", "bounded-exhaustive differential over all 32 optimizer configurations", "All 32 optimizer switch combinations are run for every generated program/EDB; all answers must agree with each other and with R1.", "R1 oracle; unanimous engine-vs-R1 disagreements are left to C01", "2/C02", "E1"),
 "C03": ("exploration", "bounded-exhaustive differential over worker counts", "workers in {1,2,3,4,8} for every program of F6,F5,F1,F2 on EDBs of up to 16 tuples; answers must equal the single-worker answer.", "hash partitioning uses DefaultHasher (deterministic); rayon pool is process-global", "2/C03", "E1"),
 "C06": ("exploration", "bounded-exhaustive aggregate programs x EDBs x 32 configurations vs reference", "All aggregate rules of family F6 x all small EDBs x all 32 configurations against R1's aggregate semantics (distinct body valuations).", "R1 aggregates; wildcards are anonymous variables (DESIGN appendix A)", "2/C06", "E1"),
 "C07": ("exploration", "bounded-exhaustive structural check of every answer", "Every accepted program of F1-F7 (incl. recursive min/max heads) x EDBs: no duplicate tuple, arity = head arity, head constants verbatim.", "recursive aggregates only on acyclic weighted EDBs (max over a cycle diverges legitimately)", "2/C07", "E1"),
 "C08": ("exploration", "bounded-exhaustive limits x programs x EDBs", "For every program with intermediate rules x EDB x limit N in {1,2,3,5,|A|,|A|+1}: result is a duplicate-free subset of the unlimited answer of size min(N,|A|).", "unlimited answer must first agree with R1, else the case is left to C01", "2/C08", "E1"),
 "C28": ("exploration", "exhaustive enumeration of statement variants x roles", "Every Statement and MetaCommand variant (parsed and directly constructed) x every KgRole/Role against the harness's own permission classification (no wildcard arm: a new variant breaks the build).", "classification table R5 in harness/src/e5.rs is the oracle for 'changes persistent state'", "2/C28", "E5"),
 "C31": ("exploration", "exhaustive pairs/triples over a finite value pool", "All ordered pairs and triples of a 37-value pool covering every kind (adjacent floats, +-0, NaNs, both int widths, vectors) and 1-2 column tuples; plus consolidate_to_current on every 3-update multiset.", "the pool is representative, not all of the value space", "2/C31", "E5"),
 "C11": ("model_checking", "explicit-state exploration of all bounded operation histories on the real StorageEngine vs a set model", "All operation sequences (shortlex) up to depth 4 (quick) / 5-6 (thorough) over {ins a, ins b, ins [a,b], ins [a,a], del a, del b, del [a,b], save, compact, restart}, each executed from a fresh real StorageEngine; served contents compared with a set model after every step and across every restart.", "set model R2 in harness/src/e2_store.rs; immediate durability, clean shutdown; tmpfs as the file system", "2/C11", "E2"),
 "C12": ("model_checking", "exhaustive enumeration of value-kind pairs x flush patterns x restart on the real StorageEngine", "Every ordered pair of a 23-value pool covering all Value kinds as two rows / one batch of a schema-less relation x 4 flush patterns (thorough: column-wise mixes in arity 2); after a clean restart the relation must hold exactly the accepted tuples including Value variant (bitwise floats).", "harness-side structural equality; known findings listed in known_findings.jsonl", "2/C12", "E2"),
 "C14": ("model_checking", "explicit-state exploration of bounded histories x storage configurations, differential against the maintenance-free twin", "All histories up to depth 3 (quick) / 4-5 (thorough) x buffer_size {1,2,3,10000} x max_wal_size {0,200,default} x durability {immediate,batched,async}; compared at every step and after a final restart with the same history stripped of save/compact under the plain configuration.", "clean shutdown only (save_all before drop in batched/async)", "2/C14", "E2"),
 "C27": ("model_checking", "exhaustive enumeration of multi-line programs x identities through the real Handler vs permission model", "All programs of 1..2 (quick) / 3 (thorough) lines over a 17-symbol line alphabet x 32 identities through Handler::execute_program; any KG on which the caller lacks write permission must be unchanged in facts, rules and schemas.", "permission model R5 in harness/src/e2_handler.rs", "2/C27", "E2"),
 "C29": ("model_checking", "exhaustive enumeration of programs naming the internal KG in every position through the real Handler", "Programs of 1..3 lines naming _internal in every position x editor/viewer identities x session bindings; _internal unchanged, never bound, never leaked, still listed.", "credential string search in replies is the read oracle", "2/C29", "E2"),
 "C30": ("model_checking", "exhaustive enumeration of programs x injected syntax error at every position through the real Handler", "All valid programs of 1..2 (quick) / 3 (thorough) lines with one malformed line injected at every position: request rejected and state unchanged; uninjected programs equal line-by-line submission.", "injections absorbed by comments / lenient meta parser are not cases", "2/C30", "E2"),
 "C32": ("model_checking", "explicit-state exploration of bounded write histories through the real Handler vs a set model", "All histories up to depth 4 (quick) / 5 (thorough) over 9 write statements (bulk with in-batch duplicates, absent deletes, conditional deletes, update); stored relation and reply counts must equal the set model's change after every step.", "set model in harness/src/e2_handler.rs", "2/C32", "E2"),
 "C33": ("model_checking", "exhaustive enumeration of schemas x tuple batches x insert paths on the real Handler/StorageEngine", "Schemas over every declared type in arity 1-2 x inserts of 1-2 tuples from a literal pool through persistent and session paths, schema-first and data-first; conformance table in the harness is the oracle.", "ambiguous (schema type, value) pairs are not asserted", "2/C33", "E2"),
 "C04": ("exploration", "bounded-exhaustive clause permutations / repetitions and program sequences on a reused engine", "All permutations of the non-query clauses and every single-clause duplication of every generated program (F1-F6) x small EDBs must answer like the original order and like R1; all ordered pairs and triples of a program pool on one reused IQLEngine must leave the last answer and the stored base facts unchanged.", "R1 oracle; mutual-recursion order dependence is a listed known finding (same root cause as C01)", "2/C04", "E1"),
 "C26": ("exploration", "exhaustive finite-domain law checking + explicit-state exploration of LSH cache operation sequences", "Distance/quantization/probe laws on complete small grids (incl. zero and 1e6 magnitudes, int8 extremes); every sequence up to depth 4/5 over 14 cache operations must return the bucket computed in a cleared cache.", "tolerance 1e-5; sequential cache leg is single-threaded because the cache is process-global; interleavings of cache users are explored by the E4 leg when present", "2/C26", "E5"),
 "C36": ("model_checking", "explicit-state exploration of all bounded insert/remove/rebuild/clear histories on the real BloomFilter and HashIndex vs a multiset model", "51 filter parameterisations (incl. degenerate 0/1/63/65 bits, 0/100 hashes) x all insert/clear sequences to depth 5/7 over 6 keys; 3 key-column specs x all histories to depth 4/6 over 14 operations; lookups compared with a multiset model after every step.", "harness structural tuple equality (bitwise floats) is the key-equality oracle", "2/C36", "E2"),
 "C24": ("model_checking", "explicit-state exploration of all bounded index histories on the real HnswIndex vs a brute-force reference, with the level generator's entropy owned by the harness (default + one deviation)", "All histories to depth 3/4 over insert/update/delete/rebuild/batch x 4 metrics; after each: 5 queries x k x ef; every result list checked against the brute-force reference (live ids, order, exact metric values, true k nearest when live <= ef). Each history is run with the benign level seed and with every single deviation (graph build r gives point j an upper layer).", "getrandom shim pins hnsw_rs's level seed; the level model is validated against hnsw_rs on every run; dot-product exact values on unit-norm inputs only", "2/C24", "E2"),
 "C25": ("model_checking", "explicit-state exploration of bounded index histories incl. save/load at every position vs a reference map", "C24's alphabet plus HnswIndex::save/load and IndexManager::save_indexes/load_indexes; after each history the live id set with latest vectors (observed by exhaustive search), len-tombstones, metric/config and dimension must equal the reference.", "same entropy ownership as C24", "2/C25", "E2"),
 "C09": ("model_checking", "exhaustive enumeration of a rule-text grammar x five submission paths (direct engine reference, inline, session, persistent, after restart) through the real Handler", "Every rule of the term grammar (all 1-3 leaf arithmetic trees in all parenthesisations, float/int/string/bool/vector constants in every position, function calls, aggregates, negation, comparisons) is evaluated five ways on the same facts; typed answers (value and kind) must agree and acceptance must be uniform.", "the direct IQLEngine evaluation of the parsed text is the reference for what the rule denotes", "2/C09", "E2"),
 "C34": ("model_checking", "exhaustive enumeration of rule sets x persistent/session splits x registration orders through the real Handler vs own SCC computation", "All closed rule sets of <=3 clauses over 2 (quick) / 3 (thorough) predicates with signed literals, every split between persistent and session rules, both registration orders, then a query on every head: negative cycles must be rejected at registration or query time, everything else accepted and answered.", "own Tarjan SCC / stratification in harness/src/r1.rs", "2/C34", "E2"),
 "C35": ("model_checking", "exhaustive enumeration of tiny relations x sort annotations x limit/offset through the real Handler vs brute-force permutation oracle", "All pairs/triples (thorough: quadruples) of a 10-value mixed-kind key pool as sort column(s), every annotation set, every limit/offset <= rows+1: the rows must be the requested slice of some inversion-free ordering; 97 relations of 24 rows with NaNs at every subset of 5 positions for the never-fails clause.", "harness partial order: numeric kinds by value, NaN and cross-kind unordered", "2/C35", "E2"),
 "C18": ("model_checking", "explicit-state exploration of bounded histories applied in lock-step to twin engines (incremental maintenance on / off), enabling at every position", "All histories to depth 3/4 over 15 symbols (base writes, rule registrations incl. derived-on-derived, clause removal, rule drops, explicit materialization of the current answer) from a seeded start state, incremental maintenance enabled before every step k; ?p ?r ?t must answer identically on both engines after every step and the plain engine must agree with the reference evaluation.", "explicit materialization goes through the public KnowledgeGraph::materialize_derived_relation because auto-materialization never succeeds on the unchanged tree; its stale-answer classes are listed known findings", "2/C18", "E2"),
 "C19": ("model_checking", "explicit-state exploration of bounded write histories with consistent reads of the incremental arrangement after every step", "Sequential leg: all histories to depth 4/5 over 8 write symbols (duplicates, absent deletes), maintenance enabled before every step k; read_relation_consistent must equal the set model after every step. The reader/writer interleaving leg belongs to E4.", "DD worker thread is live but observed only through synchronous APIs", "2/C19", "E2"),
}
NA_DEFAULT = "check not built yet in this round (work in progress; DESIGN.md section 6 build order)"

def head(path):
    try:
        return subprocess.check_output(['git','-C',path,'log','--format=%h %s'],text=True).splitlines()
    except Exception:
        return []

repo_log = head('/repo')
hooks = [l.split()[0] for l in repo_log if 'verif-hooks' in l or l.split(' ',1)[1].startswith('hooks:')]
m = {
 "version": 1,
 "setup_cmd": "./setup.sh",
 "hooks": {
   "guard": "cargo feature `verif-hooks` of the inputlayer crate (off by default)",
   "enable": "harness/Cargo.toml depends on inputlayer { path = \"/repo\", features = [\"verif-hooks\"] }; every check command rebuilds the harness (and with it /repo's working tree) before running",
   "baseline_off_cmd": "cd /repo && cargo nextest run --workspace --no-fail-fast --tool-config-file pb:/w/lib/nextest.toml --profile pb --test-threads 8 --offline",
   "source_commits": hooks,
   "add_only": True,
 },
 "engines": [
   {"name": "E1", "path": "harness/src/e1.rs", "serves_properties": ["C01","C02","C03","C04","C06","C07","C08"], "kind_free_text": E1},
   {"name": "E5", "path": "harness/src/e5.rs", "serves_properties": ["C26","C28","C31"], "kind_free_text": "E5 FIN: nested loops over complete finite domains"},
   {"name": "E2", "path": "harness/src/e2_store.rs, harness/src/e2_handler.rs, harness/src/e2_index.rs, harness/src/e2_hnsw.rs, harness/src/e2_rules.rs, harness/src/e2_c35.rs, harness/src/e2_incr.rs", "serves_properties": [k for k,v in CHECKS.items() if v[5]=="E2"], "kind_free_text": "E2 HIST: explicit-state exploration of all operation sequences up to a depth bound over a small alphabet, every sequence executed on real StorageEngine / Handler objects and compared with a reference model after every step"},
 ],
 "checks": [],
 "not_applicable": [],
 "notes": "Driver: ./check <Cxx> [--tier quick|thorough] [--replay <file>] rebuilds harness+/repo then runs target/debug/vcheck. Known findings: known_findings.jsonl (status=known entries print KNOWN-FINDING and exit 0; status=fixed entries are documentation and suppress nothing). Exit 2 = machinery failure (build error, watchdog), never a verdict.",
}
for p in props:
    i = p['id']
    if i in CHECKS:
        cat, tech, text, note, ref, eng = CHECKS[i]
        m["checks"].append({
          "property_id": i,
          "quick_cmd": f"./check {i} --tier quick",
          "thorough_cmd": f"./check {i} --tier thorough",
          "evidence_file": f"/verif/evidence/{i}.json",
          "replay_cmd_template": f"./check {i} --replay {{path}}",
          "engine": eng,
          "level_claimed": {"category": cat, "text": text, "design_ref": ref},
          "level_note": note,
          "technique": tech,
        })
    else:
        m["not_applicable"].append({"property_id": i, "reason": NA_DEFAULT})
json.dump(m, open(os.path.join(ROOT,'MANIFEST.json'),'w'), indent=1)
print("checks:", len(m["checks"]), "not_applicable:", len(m["not_applicable"]))
