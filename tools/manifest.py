#!/usr/bin/env python3
"""Regenerates /verif/MANIFEST.json from the table below (single source of truth for check metadata)."""
import json, subprocess, os
ROOT = os.path.dirname(os.path.dirname(os.path.abspath(__file__)))
props = [json.loads(l) for l in open(os.path.join(ROOT, 'properties.jsonl'))]

E1 = "E1 PROG: exhaustive enumeration of a bounded program grammar x all small EDBs x configurations, executed on the real IQLEngine, compared with the harness's reference evaluator R1"
# id -> (category, technique, level text, level note, design ref, engine)
CHECKS = {
 "C01": ("exploration", "bounded-exhaustive program x EDB enumeration on the real engine vs reference Datalog evaluator", "Every program of grammar families F1-F6 within the stated size bounds x every EDB with <=m tuples over a 3-value domain is executed on the real IQLEngine (default config) and its answer compared as a set with the independent reference evaluator R1. A coverage statement over the small scope, not a proof for all programs.", "R1 (harness/src/r1.rs) is the oracle; Int64 values only; small-scope hypothesis for larger programs", "2/C01", "E1"),
 "C02": ("exploration", "bounded-exhaustive differential over all 32 optimizer configurations", "All 32 optimizer switch combinations are run for every generated program/EDB; all answers must agree with each other and with R1.", "R1 oracle; unanimous engine-vs-R1 disagreements are left to C01", "2/C02", "E1"),
 "C03": ("exploration", "bounded-exhaustive differential over worker counts", "workers in {1,2,3,4,8} for every program of F6,F5,F1,F2 on EDBs of up to 16 tuples; answers must equal the single-worker answer.", "hash partitioning uses DefaultHasher (deterministic); rayon pool is process-global", "2/C03", "E1"),
 "C06": ("exploration", "bounded-exhaustive aggregate programs x EDBs x 32 configurations vs reference", "All aggregate rules of family F6 x all small EDBs x all 32 configurations against R1's aggregate semantics (distinct body valuations).", "R1 aggregates; wildcards are anonymous variables (DESIGN appendix A)", "2/C06", "E1"),
 "C07": ("exploration", "bounded-exhaustive structural check of every answer", "Every accepted program of F1-F7 (incl. recursive min/max heads) x EDBs: no duplicate tuple, arity = head arity, head constants verbatim.", "recursive aggregates only on acyclic weighted EDBs (max over a cycle diverges legitimately)", "2/C07", "E1"),
 "C08": ("exploration", "bounded-exhaustive limits x programs x EDBs", "For every program with intermediate rules x EDB x limit N in {1,2,3,5,|A|,|A|+1}: result is a duplicate-free subset of the unlimited answer of size min(N,|A|).", "unlimited answer must first agree with R1, else the case is left to C01", "2/C08", "E1"),
 "C28": ("exploration", "exhaustive enumeration of statement variants x roles", "Every Statement and MetaCommand variant (parsed and directly constructed) x every KgRole/Role against the harness's own permission classification (no wildcard arm: a new variant breaks the build).", "classification table R5 in harness/src/e5.rs is the oracle for 'changes persistent state'", "2/C28", "E5"),
 "C31": ("exploration", "exhaustive pairs/triples over a finite value pool", "All ordered pairs and triples of a 37-value pool covering every kind (adjacent floats, +-0, NaNs, both int widths, vectors) and 1-2 column tuples; plus consolidate_to_current on every 3-update multiset.", "the pool is representative, not all of the value space", "2/C31", "E5"),
}
NA_DEFAULT = "check not built yet in this round (work in progress; DESIGN.md section 6 build order)"

def head(path):
    try:
        return subprocess.check_output(['git','-C',path,'log','--format=%h %s'],text=True).splitlines()
    except Exception:
        return []

repo_log = head('/repo')
hooks = [l.split()[0] for l in repo_log if 'verif-hooks' in l or l.split(' ',1)[1].startswith('hooks:')]
m = {
 "version": 1,
 "setup_cmd": "./setup.sh",
 "hooks": {
   "guard": "cargo feature `verif-hooks` of the inputlayer crate (off by default)",
   "enable": "harness/Cargo.toml depends on inputlayer { path = \"/repo\", features = [\"verif-hooks\"] }; every check command rebuilds the harness (and with it /repo's working tree) before running",
   "baseline_off_cmd": "cd /repo && cargo nextest run --workspace --no-fail-fast --tool-config-file pb:/w/lib/nextest.toml --profile pb --test-threads 8 --offline",
   "source_commits": hooks,
   "add_only": True,
 },
 "engines": [
   {"name": "E1", "path": "harness/src/e1.rs", "serves_properties": ["C01","C02","C03","C06","C07","C08"], "kind_free_text": E1},
   {"name": "E5", "path": "harness/src/e5.rs", "serves_properties": ["C28","C31"], "kind_free_text": "E5 FIN: nested loops over complete finite domains"},
 ],
 "checks": [],
 "not_applicable": [],
 "notes": "Driver: ./check <Cxx> [--tier quick|thorough] [--replay <file>] rebuilds harness+/repo then runs target/debug/vcheck. Known findings: known_findings.jsonl (status=known entries print KNOWN-FINDING and exit 0; status=fixed entries are documentation and suppress nothing). Exit 2 = machinery failure (build error, watchdog), never a verdict.",
}
for p in props:
    i = p['id']
    if i in CHECKS:
        cat, tech, text, note, ref, eng = CHECKS[i]
        m["checks"].append({
          "property_id": i,
          "quick_cmd": f"./check {i} --tier quick",
          "thorough_cmd": f"./check {i} --tier thorough",
          "evidence_file": f"/verif/evidence/{i}.json",
          "replay_cmd_template": f"./check {i} --replay {{path}}",
          "engine": eng,
          "level_claimed": {"category": cat, "text": text, "design_ref": ref},
          "level_note": note,
          "technique": tech,
        })
    else:
        m["not_applicable"].append({"property_id": i, "reason": NA_DEFAULT})
json.dump(m, open(os.path.join(ROOT,'MANIFEST.json'),'w'), indent=1)
print("checks:", len(m["checks"]), "not_applicable:", len(m["not_applicable"]))
