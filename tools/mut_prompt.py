#!/usr/bin/env python3
"""Prints the prompt given to an independent sub-agent that seeds a property-breaking change (usage: mut_prompt.py Cxx [dir])."""
import json, sys
pid = sys.argv[1]
d = sys.argv[2] if len(sys.argv) > 2 else f"/tmp/mut/{pid}"
p = [json.loads(l) for l in open('/verif/properties.jsonl') if json.loads(l)['id'] == pid][0]
print(f"""You are working in a scratch git worktree of the `inputlayer` repository (a Rust Datalog-style incremental rules engine) at {d}/wt . The machine is offline: prefix cargo commands with `CARGO_NET_OFFLINE=true CARGO_PROFILE_DEV_DEBUG=0 CARGO_PROFILE_TEST_DEBUG=0 CARGO_TARGET_DIR={d}/target` (always use exactly that target dir, never the default one). Work ONLY inside {d}; do not read or modify /repo or /verif.

Goal: introduce a realistic regression (the kind of change a developer could plausibly make: a refactoring slip, a misplaced statement, a wrong cursor/offset, a dropped call, a reordered pair of steps, a cache/shortcut that is almost right) into the source under {d}/wt/src that BREAKS the semantic property below while the crate still compiles and the repository's existing tests still pass.

Property "{p['title']}":
{p['statement']}
(Scope it is meant to hold over: {p['quantifier']['text']})

Requirements for the change:
- It must need something specific to manifest — a particular interleaving, a crash or fault at a particular point, a multi-step sequence of operations, an unusual input shape or value, or two cooperating sites that each look fine alone. It must NOT be something ordinary use exposes at once, and must not be caught by the existing test suite.
- Small (ideally under ~40 changed lines), plausible, no new dependencies, no test edits, no cfg tricks, no comments that announce the bug.
- Provide a demonstration: a Rust integration test file (put it at {d}/wt/tests/zz_mut_demo.rs) that FAILS with your change and PASSES on the unchanged code (verify both; do NOT use `git stash` - the stash is shared between worktrees - use `git diff -- src > /tmp/mut/…/my.diff; git checkout -- src; …; git apply my.diff` instead). The demo should use only the crate's public API.
- Existing tests: run `cargo test --lib` plus the integration tests in tests/ that touch the area you changed and make sure they pass with your change. (The full suite — `cargo nextest run --workspace --no-fail-fast --tool-config-file pb:/w/lib/nextest.toml --profile pb --test-threads 8 --offline` — takes long to build; run it if you can afford it, otherwise say which subsets you ran.) If an existing test fails, pick a different change.

Deliverables, written into {d}/out/ :
- patch.diff : `git diff HEAD -- src` (source change only, applies with `git apply` at the repo root)
- zz_mut_demo.rs : the demonstration test (copy)
- notes.md : what the change is, which clause of the property it breaks, exactly what is needed for it to manifest, which existing tests you ran and their result, and the demo's output with and without the change.

Build notes: a cold build takes several minutes; `cargo test --lib --no-run` first. Use at most 6 build jobs (`-j 6`). Keep your final reply to a summary of at most 10 lines.""")
