#!/usr/bin/env python3
"""Append status=known entries to known_findings.jsonl for the violation classes of the last run of a check.
Usage: record_known.py Cxx '<what, may contain {class} and {detail}>' [class-prefix-filter]
Run by hand after triage only; checks never write this file."""
import json, sys
prop, what = sys.argv[1], sys.argv[2]
flt = sys.argv[3] if len(sys.argv) > 3 else ''
ev = json.load(open(f'/verif/evidence/{prop}.json'))
have = set()
for l in open('/verif/known_findings.jsonl'):
    l=l.strip()
    if l and not l.startswith('#'):
        j=json.loads(l); have.add((j['property'], j['class'], j['status']))
out = open('/verif/known_findings.jsonl','a')
n=0
for v in ev['coverage']['violation_classes']:
    c = v['class']
    if not c.startswith(flt) or (prop, c, 'known') in have: continue
    out.write(json.dumps({"status":"known","property":prop,"class":c,"what":what.replace('{class}',c).replace('{detail}',v['detail'][:220]),"example":v['case']})+"\n"); n+=1
print("recorded", n)
