#!/bin/bash
# run_seeded.sh [id ...] — apply each seeded change to /repo, run the quick check of its property, undo it.
# Prints one line per seed: DETECTED / MISSED / PATCH-DOES-NOT-APPLY. Never leaves /repo modified.
cd "$(dirname "$0")/.."
ids="$@"; [ -z "$ids" ] && ids=$(ls seeded | grep -v RESULTS)
if [ -n "$(git -C /repo status --porcelain --untracked-files=no)" ]; then echo "/repo has local changes; refusing"; exit 2; fi
for id in $ids; do
  st=$(python3 -c "import json;print(json.load(open('seeded/$id/meta.json')).get('status','live'))")
  if [ "$st" = "superseded" ] || [ "$st" = "unconfirmed" ]; then echo "$id ${st^^} (see meta.json)"; continue; fi
  prop=$(python3 -c "import json;print(json.load(open('seeded/$id/meta.json'))['property'])")
  extra=$(python3 -c "import json;print(' '.join(json.load(open('seeded/$id/meta.json')).get('also_check',[])))")
  if ! git -C /repo apply --check "$PWD/seeded/$id/patch.diff" 2>/dev/null; then echo "$id $prop PATCH-DOES-NOT-APPLY"; continue; fi
  git -C /repo apply "$PWD/seeded/$id/patch.diff"
  res=""
  for c in $prop $extra; do
    out=$(./check $c --tier quick 2>&1); code=$?
    n=$(echo "$out" | grep -c "^VIOLATION")
    if [ $code -eq 1 ] && [ $n -gt 0 ]; then res="$res $c:DETECTED($n)"; elif [ $code -eq 0 ]; then res="$res $c:MISSED"; else res="$res $c:EXIT$code"; fi
  done
  git -C /repo checkout -- .
  echo "$id$res"
done
