#!/bin/bash
# run_thorough.sh [id ...] — run the thorough tier of each check one after the other; one summary line per check.
# Logs go to $LOGDIR (default /dev/shm/logs). Evidence files are rewritten by each run (tier "thorough").
cd "$(dirname "$0")/.."
LOGDIR=${LOGDIR:-/dev/shm/logs}; mkdir -p $LOGDIR
ids="$@"; [ -z "$ids" ] && ids=$(python3 -c "import json;print(' '.join(c['property_id'] for c in json.load(open('MANIFEST.json'))['checks']))")
for id in $ids; do
  while [ -e /dev/shm/pause_thorough ]; do sleep 20; done   # lets a seed test borrow /repo between two checks
  t0=$(date +%s)
  ./check $id --tier thorough > $LOGDIR/thorough_$id.log 2>&1; code=$?
  t1=$(date +%s)
  echo "$id exit=$code wall=$((t1-t0))s $(grep -c '^VIOLATION' $LOGDIR/thorough_$id.log) violations, $(grep -c '^KNOWN-FINDING' $LOGDIR/thorough_$id.log) known; $(tail -1 $LOGDIR/thorough_$id.log | cut -c1-160)"
done
