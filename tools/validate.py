#!/usr/bin/env python3
"""Validate MANIFEST.json and every evidence file against the given schemas (run with python3-vt)."""
import json, jsonschema, glob, sys
bad = 0
try:
    jsonschema.validate(json.load(open('/verif/MANIFEST.json')), json.load(open('/root/.vp/MANIFEST.schema.json')))
except Exception as e:
    print('MANIFEST invalid:', str(e)[:300]); bad += 1
es = json.load(open('/root/.vp/EVIDENCE.schema.json'))
for f in sorted(glob.glob('/verif/evidence/*.json')):
    try:
        jsonschema.validate(json.load(open(f)), es)
    except Exception as e:
        print(f, 'invalid:', str(e)[:300]); bad += 1
m = json.load(open('/verif/MANIFEST.json'))
ids = [c['property_id'] for c in m['checks']] + [c['property_id'] for c in m.get('not_applicable', [])]
props = [json.loads(l)['id'] for l in open('/verif/properties.jsonl')]
if sorted(ids) != sorted(props):
    print('manifest does not partition the properties', set(props) ^ set(ids)); bad += 1
print('ok' if not bad else f'{bad} problems')
sys.exit(1 if bad else 0)
